package simkit

import "fmt"

// FatalLog is panicked when code under test calls Logger.Fatal*: production would
// os.Exit there, i.e. the node process dies.
type FatalLog struct{ Msg string }

// Logger is a silent lib.LoggerI. Errors are counted so oracles can look at them.
type Logger struct {
	Errors   int
	LastErr  string
	Verbose  bool
	OnError  func(string)
	Warnings int
}

func (l *Logger) Debug(msg string) {}
func (l *Logger) Info(msg string) {
	if l.Verbose {
		fmt.Println("INFO", msg)
	}
}
func (l *Logger) Warn(msg string) { l.Warnings++ }
func (l *Logger) Error(msg string) {
	l.Errors++
	l.LastErr = msg
	if l.Verbose {
		fmt.Println("ERROR", msg)
	}
	if l.OnError != nil {
		l.OnError(msg)
	}
}
func (l *Logger) Fatal(msg string)                  { panic(FatalLog{msg}) }
func (l *Logger) Print(msg string)                  {}
func (l *Logger) Debugf(format string, args ...any) {}
func (l *Logger) Infof(format string, args ...any) {
	if l.Verbose {
		fmt.Printf("INFO "+format+"\n", args...)
	}
}
func (l *Logger) Warnf(format string, args ...any)  { l.Warnings++ }
func (l *Logger) Errorf(format string, args ...any) { l.Error(fmt.Sprintf(format, args...)) }
func (l *Logger) Fatalf(format string, args ...any) { panic(FatalLog{fmt.Sprintf(format, args...)}) }
func (l *Logger) Printf(format string, args ...any) {}
