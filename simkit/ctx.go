package simkit

import (
	"fmt"
	"hash/fnv"
	"regexp"
	"sort"
	"strings"
	"time"
)

// Violation is what an oracle reports. Class = Prop+Oracle+Sig identifies the violation
// class for shrinking (a shrunk candidate is accepted only if the same class recurs)
// and for matching against known_findings.json.
type Violation struct {
	Prop   string `json:"property"`
	Oracle string `json:"oracle"`
	Sig    string `json:"signature"`
	Detail string `json:"detail"`
	Event  int    `json:"event_seq"`
	Panic  bool   `json:"panic,omitempty"`
}

func (v *Violation) Class() string { return v.Prop + "/" + v.Oracle + "/" + v.Sig }

type KnownFinding struct {
	Property    string `json:"property"`
	ID          string `json:"id"`
	Oracle      string `json:"oracle"`
	Matcher     string `json:"matcher"` // regexp over the violation signature
	Description string `json:"description"`
	re          *regexp.Regexp
}

type violationPanic struct{ v *Violation }

// Ctx is handed to an engine for one simulated run.
type Ctx struct {
	DeferCross   bool // cross-property oracle hits are recorded, not raised, until FlushCross
	pendingCross bool
	T            *Tape
	Prop         string
	Tier         string
	Mode         string // engine-specific sub-mode
	Seed         uint64
	Run          int
	Replay       bool
	Bubble       bool
	Verbose      bool

	Trace      []string
	traceDrop  int
	Faults     map[string]int
	Probes     map[string]int
	FP         map[uint64]struct{}
	Events     int
	Progress   int
	SimStart   time.Time
	SimElapsed time.Duration
	Known      []KnownFinding
	KnownHits  map[string]int
	KnownFirst map[string]string
	Checks     int // oracle evaluations performed
}

const maxTrace = 4000

func NewCtx(t *Tape, prop, tier string) *Ctx {
	return &Ctx{T: t, Prop: prop, Tier: tier, Faults: map[string]int{}, Probes: map[string]int{},
		FP: map[uint64]struct{}{}, KnownHits: map[string]int{}, KnownFirst: map[string]string{}}
}

// Logf appends to the decoded schedule/fault trace. It never draws from the tape and
// never reads a real clock.
func (c *Ctx) Logf(format string, a ...any) {
	if len(c.Trace) >= maxTrace {
		c.traceDrop++
		return
	}
	c.Trace = append(c.Trace, fmt.Sprintf("%d: ", c.Events)+strings.Join(strings.Fields(fmt.Sprintf(format, a...)), " "))
}

func (c *Ctx) Fault(kind string) { c.Faults[kind]++ }
func (c *Ctx) Probe(name string) { c.Probes[name]++ }
func (c *Ctx) Step()             { c.Events++ }
func (c *Ctx) Check()            { c.Checks++ }

// Fingerprint records one abstract state.
func (c *Ctx) Fingerprint(parts ...any) {
	h := fnv.New64a()
	fmt.Fprint(h, parts...)
	c.FP[h.Sum64()] = struct{}{}
}

func (c *Ctx) FingerprintBytes(b []byte) {
	h := fnv.New64a()
	h.Write(b)
	c.FP[h.Sum64()] = struct{}{}
}

// Report raises a violation of c.Prop. If it matches a listed known finding the hit is
// counted and Report returns (the run continues); otherwise it unwinds the run.
func (c *Ctx) Report(oracle, sig, detail string) {
	c.ReportFor(c.Prop, oracle, sig, detail)
}

// crossAbort ends a run in which an oracle of *another* property failed: this check does
// not claim that property, so it neither raises nor continues on a possibly corrupt state.
type crossAbort struct{}

func (c *Ctx) ReportFor(prop, oracle, sig, detail string) {
	if prop != c.Prop && c.Prop != "ALL" {
		for i := range c.Known {
			k := &c.Known[i]
			if k.Property == prop && (k.Oracle == "" || k.Oracle == oracle) {
				if k.re == nil {
					k.re = regexp.MustCompile(k.Matcher)
				}
				if k.re.MatchString(sig) {
					return
				}
			}
		}
		c.Probes["cross:"+prop+"/"+oracle]++
		c.Logf("cross-property oracle %s/%s/%s fired (not claimed by this check): %s", prop, oracle, sig, detail)
		if c.DeferCross {
			// the caller is in the middle of a group of oracles: let the run's own property have its say first
			c.pendingCross = true
			return
		}
		panic(crossAbort{})
	}
	for i := range c.Known {
		k := &c.Known[i]
		if k.Property != prop || (k.Oracle != "" && k.Oracle != oracle) {
			continue
		}
		if k.re == nil {
			k.re = regexp.MustCompile(k.Matcher)
		}
		if k.re.MatchString(sig) {
			c.KnownHits[k.ID]++
			if _, ok := c.KnownFirst[k.ID]; !ok {
				c.KnownFirst[k.ID] = sig + " :: " + detail
			}
			c.Logf("KNOWN-FINDING %s %s %s", k.ID, oracle, sig)
			return
		}
	}
	v := &Violation{Prop: prop, Oracle: oracle, Sig: sig, Detail: detail, Event: c.Events}
	c.Logf("VIOLATION %s/%s/%s: %s", prop, oracle, sig, detail)
	panic(violationPanic{v})
}

// Assertf is for harness-internal expectations (not properties): failing one is a
// harness error (exit 2), never a VIOLATION.
type HarnessError struct{ Msg string }

func (c *Ctx) Harnessf(format string, a ...any) {
	panic(HarnessError{fmt.Sprintf(format, a...)})
}

func sortedKeys(m map[string]int) []string {
	ks := make([]string, 0, len(m))
	for k := range m {
		ks = append(ks, k)
	}
	sort.Strings(ks)
	return ks
}

// IsSimPanic reports whether a recovered value is one of the kernel's own control-flow panics.
func IsSimPanic(r any) bool {
	switch r.(type) {
	case violationPanic, crossAbort, HarnessError:
		return true
	}
	return false
}

// FlushCross ends a group of oracles evaluated with DeferCross: if another property's oracle fired
// in the group (and the run's own did not raise), the run is abandoned now.
func (c *Ctx) FlushCross() {
	c.DeferCross = false
	if c.pendingCross {
		c.pendingCross = false
		panic(crossAbort{})
	}
}
