package simkit

import "encoding/binary"

// MutateBytes derives a corrupted variant of an encoded message: what a faulty link, a buggy or a
// malicious peer can put on the wire. Every choice comes from the tape.
func MutateBytes(t *Tape, in []byte) (out []byte, kind string) {
	b := append([]byte(nil), in...)
	switch t.Pick(4, 3, 2, 2, 2, 2, 1, 1) {
	case 0:
		if len(b) == 0 {
			return []byte{0xFF}, "garbage"
		}
		n := 1 + t.Intn(3)
		for i := 0; i < n; i++ {
			b[t.Intn(len(b))] ^= 1 << uint(t.Intn(8))
		}
		return b, "bit-flips"
	case 1:
		if len(b) < 2 {
			return nil, "empty"
		}
		return b[:t.Intn(len(b))], "truncated"
	case 2: // an unknown field (number 1999) appended
		tag := binary.AppendUvarint(nil, uint64(1999<<3|0))
		return append(append(b, tag...), 1), "unknown-field-appended"
	case 3: // an unknown length-delimited field claiming more bytes than exist
		tag := binary.AppendUvarint(nil, uint64(1998<<3|2))
		ln := binary.AppendUvarint(nil, uint64(1)<<uint(20+t.Intn(40)))
		return append(append(b, tag...), ln...), "oversize-length-prefix"
	case 4: // the message twice (every field repeated)
		return append(b, in...), "all-fields-repeated"
	case 5: // a byte run overwritten with 0xFF
		if len(b) < 4 {
			return []byte{0xFF, 0xFF, 0xFF}, "garbage"
		}
		s := t.Intn(len(b) - 2)
		e := s + 1 + t.Intn(min(16, len(b)-s-1))
		for i := s; i < e; i++ {
			b[i] = 0xFF
		}
		return b, "ff-run"
	case 6: // deeply nested empty sub-messages in field 1
		out := []byte{}
		for i := 0; i < 200+t.Intn(2000); i++ {
			inner := out
			out = append(binary.AppendUvarint([]byte{0x0A}, uint64(len(inner))), inner...)
			if len(out) > 1<<16 {
				break
			}
		}
		return out, "deep-nesting"
	default:
		return t.Bytes(1 + t.Intn(64)), "garbage"
	}
}
