// Package simkit is the deterministic-simulation kernel shared by all engines:
// the choice tape (one integer decides everything), the run context (trace, fault and
// probe counters, state fingerprints), the bubble runner, the tape shrinker and the
// worker entry point that the ./check orchestrator fans out.
package simkit

import (
	"math/rand/v2"
)

// Tape is the single source of nondeterminism of a simulated run. In generation mode
// every draw comes from a PCG stream seeded from (VERIF_SEED, run index) and is recorded;
// in replay mode draws are read back from the recorded tape (an exhausted tape yields 0,
// which every choice point treats as the benign choice).
type Tape struct {
	rng    *rand.Rand
	rec    []uint32
	replay []uint32
	pos    int
	isRep  bool
}

func SplitMix64(x uint64) uint64 {
	x += 0x9e3779b97f4a7c15
	z := x
	z = (z ^ (z >> 30)) * 0xbf58476d1ce4e5b9
	z = (z ^ (z >> 27)) * 0x94d049bb133111eb
	return z ^ (z >> 31)
}

// RunSeed derives the per-run seed from the master seed and the run index.
func RunSeed(master uint64, run int) uint64 {
	return SplitMix64(master*0x100000001b3 + uint64(run)*0x9e3779b97f4a7c15 + 0x1234567)
}

func NewTape(seed uint64) *Tape {
	return &Tape{rng: rand.New(rand.NewPCG(seed, SplitMix64(seed)))}
}

func ReplayTape(rec []uint32) *Tape {
	return &Tape{replay: rec, isRep: true}
}

// Intn returns a value in [0,n). 0 is the benign choice at every choice point.
func (t *Tape) Intn(n int) int {
	if n <= 1 {
		// still consume a slot so that tapes stay aligned when n varies with state
		t.draw(1)
		return 0
	}
	return int(t.draw(uint32(n)))
}

func (t *Tape) draw(n uint32) uint32 {
	var v uint32
	if t.isRep {
		if t.pos < len(t.replay) {
			v = t.replay[t.pos] % n
		}
		t.pos++
	} else {
		v = uint32(t.rng.Uint64N(uint64(n)))
	}
	t.rec = append(t.rec, v)
	return v
}

// Chance returns true with probability num/den; tape value 0 always means false.
func (t *Tape) Chance(num, den int) bool {
	if num <= 0 {
		t.draw(1)
		return false
	}
	return t.Intn(den) >= den-num
}

// Range returns a value in [lo,hi] (inclusive); lo is the benign choice.
func (t *Tape) Range(lo, hi int) int {
	if hi <= lo {
		t.draw(1)
		return lo
	}
	return lo + t.Intn(hi-lo+1)
}

// Pick returns an index into a weighted list; index 0 is benign.
func (t *Tape) Pick(weights ...int) int {
	total := 0
	for _, w := range weights {
		total += w
	}
	if total <= 0 {
		t.draw(1)
		return 0
	}
	v := t.Intn(total)
	for i, w := range weights {
		if v < w {
			return i
		}
		v -= w
	}
	return 0
}

func (t *Tape) Bytes(n int) []byte {
	b := make([]byte, n)
	for i := 0; i < n; i += 4 {
		v := t.draw(0xffffffff)
		for j := 0; j < 4 && i+j < n; j++ {
			b[i+j] = byte(v >> (8 * j))
		}
	}
	return b
}

func (t *Tape) Uint64() uint64 {
	return uint64(t.draw(0xffffffff))<<32 | uint64(t.draw(0xffffffff))
}

// Recorded returns the tape of all draws made so far.
func (t *Tape) Recorded() []uint32 { return t.rec }
func (t *Tape) Len() int           { return len(t.rec) }

// Sub returns a non-recorded deterministic PRNG derived from the next tape draw; used
// where a library needs a *rand.Rand (pebble CrashClone).
func (t *Tape) Sub() *rand.Rand {
	s := t.Uint64()
	return rand.New(rand.NewPCG(s, SplitMix64(s)))
}
