package simkit

import (
	"encoding/json"
	"fmt"
	"os"
	"path/filepath"
	"runtime"
	"runtime/debug"
	"sort"
	"strconv"
	"strings"
	"testing"
	"testing/synctest"
	"time"
)

// Engine executes one simulated run driven entirely by c.T.
type Engine func(c *Ctx)

type EngineSpec struct {
	Name   string // engine name (bftsim, storesim, ...)
	Run    Engine
	Bubble bool // run inside a testing/synctest bubble (fake clock)
	LeakOK bool // service goroutines of the code under test may outlive the run
}

// RunOne executes one run; returns the violation (if any) or a harness error.
func RunOne(t *testing.T, spec EngineSpec, c *Ctx) (v *Violation, herr error) {
	body := func() {
		defer func() {
			if r := recover(); r != nil {
				switch x := r.(type) {
				case violationPanic:
					v = x.v
				case crossAbort:
				case HarnessError:
					herr = fmt.Errorf("harness: %s", x.Msg)
				default:
					herr = fmt.Errorf("unexpected panic in run: %v\n%s", r, debug.Stack())
				}
			}
		}()
		c.SimStart = time.Now()
		c.Bubble = spec.Bubble
		defer func() {
			if spec.Bubble && c.SimElapsed == 0 {
				c.SimElapsed = time.Since(c.SimStart)
			}
		}()
		spec.Run(c)
	}
	if !spec.Bubble {
		body()
		return
	}
	defer func() {
		if r := recover(); r != nil {
			if herr == nil && v == nil && strings.Contains(fmt.Sprint(r), "blocked goroutines remain") && spec.LeakOK {
				// the code under test starts service goroutines it never stops (e.g. cache janitors): they are
				// abandoned with the bubble
			} else if herr == nil && v == nil {
				herr = fmt.Errorf("bubble panic: %v", r)
			} else if v == nil {
				herr = fmt.Errorf("%v; bubble panic: %v", herr, r)
			}
			// a violation was already found; leftover goroutines after unwinding are expected
		}
	}()
	synctest.Test(t, func(t *testing.T) { body() })
	return
}

type ReplayFile struct {
	Engine    string     `json:"engine"`
	Property  string     `json:"property"`
	Tier      string     `json:"tier"`
	Mode      string     `json:"mode,omitempty"`
	Seed      uint64     `json:"seed"`
	Run       int        `json:"run"`
	Tape      []uint32   `json:"tape"`
	OrigLen   int        `json:"original_tape_len"`
	OrigTape  []uint32   `json:"original_tape,omitempty"` // the unminimised tape of the run that failed
	Violation *Violation `json:"violation"`
	Trace     []string   `json:"trace"`
	RepoHead  string     `json:"repo_head,omitempty"`
	Note      string     `json:"note,omitempty"`
}

type WorkerResult struct {
	Engine      string            `json:"engine"`
	Property    string            `json:"property"`
	Tier        string            `json:"tier"`
	Seed        uint64            `json:"seed"`
	Runs        int               `json:"runs"`
	RunsFaulted int               `json:"runs_with_faults_and_progress"`
	Events      int               `json:"events"`
	Checks      int               `json:"oracle_checks"`
	SimTimeS    float64           `json:"sim_time_s"`
	WallS       float64           `json:"wall_s"`
	Faults      map[string]int    `json:"faults"`
	Probes      map[string]int    `json:"probes"`
	FP          []uint64          `json:"fp"`
	FPNontriv   []uint64          `json:"fp_nontrivial"`
	Violations  []ReplayFile      `json:"violations"`
	ReplayPaths []string          `json:"replay_paths"`
	KnownHits   map[string]int    `json:"known_hits"`
	KnownFirst  map[string]string `json:"known_first"`
	Samples     [][]string        `json:"samples"`
	Harness     []string          `json:"harness_errors"`
	Seeds       []int             `json:"run_indices_sample"`
	ShrinkRuns  int               `json:"shrink_runs"`
}

func envInt(k string, def int) int {
	if s := os.Getenv(k); s != "" {
		if v, err := strconv.Atoi(s); err == nil {
			return v
		}
	}
	return def
}

func envU64(k string, def uint64) uint64 {
	if s := os.Getenv(k); s != "" {
		if v, err := strconv.ParseUint(s, 10, 64); err == nil {
			return v
		}
		if v, err := strconv.ParseInt(s, 10, 64); err == nil {
			return uint64(v)
		}
	}
	return def
}

func loadKnown(path string) []KnownFinding {
	if path == "" {
		return nil
	}
	b, err := os.ReadFile(path)
	if err != nil {
		return nil
	}
	var f struct {
		Known []KnownFinding `json:"known"`
	}
	if err := json.Unmarshal(b, &f); err != nil {
		fmt.Fprintf(os.Stderr, "known findings file unreadable: %v\n", err)
		os.Exit(2)
	}
	return f.Known
}

const maxFP = 300000

// WorkerMain is the body of every engine's TestWorker. It is driven by environment
// variables set by ./check and writes a WorkerResult JSON to VERIF_OUT.
func WorkerMain(t *testing.T, engineName string, engines map[string]EngineSpec) {
	prop := os.Getenv("VERIF_PROP")
	if prop == "" {
		t.Skip("VERIF_PROP not set (run through ./check)")
	}
	spec, ok := engines[prop]
	if !ok {
		fmt.Fprintf(os.Stderr, "engine %s does not serve %s\n", engineName, prop)
		os.Exit(2)
	}
	spec.Name = engineName
	tier := os.Getenv("VERIF_TIER")
	if tier == "" {
		tier = "quick"
	}
	seed := envU64("VERIF_SEED", 20260922)
	known := loadKnown(os.Getenv("VERIF_KNOWN"))
	mode := os.Getenv("VERIF_MODE")
	verbose := os.Getenv("VERIF_VERBOSE") != ""
	runTimeout := time.Duration(envInt("VERIF_RUN_TIMEOUT_S", 300)) * time.Second

	watchdog := func(what string) *time.Timer {
		return time.AfterFunc(runTimeout, func() {
			fmt.Fprintf(os.Stderr, "WATCHDOG: %s exceeded %v wall clock\n", what, runTimeout)
			buf := make([]byte, 1<<20)
			n := runtime.Stack(buf, true)
			os.Stderr.Write(buf[:n])
			os.Exit(2)
		})
	}

	mkCtx := func(tp *Tape, run int) *Ctx {
		c := NewCtx(tp, prop, tier)
		c.Mode, c.Seed, c.Run, c.Known, c.Verbose = mode, seed, run, known, verbose
		return c
	}

	if rp := os.Getenv("VERIF_REPLAY"); rp != "" {
		b, err := os.ReadFile(rp)
		if err != nil {
			fmt.Fprintf(os.Stderr, "cannot read replay file: %v\n", err)
			os.Exit(2)
		}
		var rf ReplayFile
		if err := json.Unmarshal(b, &rf); err != nil {
			fmt.Fprintf(os.Stderr, "bad replay file: %v\n", err)
			os.Exit(2)
		}
		tier, mode = rf.Tier, rf.Mode
		tape := rf.Tape
		if os.Getenv("VERIF_REPLAY_ORIG") != "" && len(rf.OrigTape) > 0 {
			tape = rf.OrigTape
		}
		c := mkCtx(ReplayTape(tape), rf.Run)
		c.Seed, c.Replay = rf.Seed, true
		w := watchdog("replay")
		v, herr := RunOne(t, spec, c)
		w.Stop()
		if os.Getenv("VERIF_PRINT_TRACE") != "" {
			for _, l := range c.Trace {
				fmt.Println("TRACE", l)
			}
		}
		out := map[string]any{"violation": v, "harness_error": fmt.Sprint(herr), "expected": rf.Violation,
			"events": c.Events, "trace_equal": equalTrace(c.Trace, rf.Trace)}
		ob, _ := json.MarshalIndent(out, "", " ")
		if p := os.Getenv("VERIF_OUT"); p != "" {
			os.WriteFile(p, ob, 0o644)
		}
		switch {
		case herr != nil:
			fmt.Printf("REPLAY harness error: %v\n", herr)
			os.Exit(2)
		case v == nil:
			fmt.Printf("REPLAY no violation (expected %s)\n", rf.Violation.Class())
			os.Exit(3)
		case rf.Violation != nil && v.Class() != rf.Violation.Class():
			fmt.Printf("REPLAY different violation: got %s at event %d, expected %s at event %d\n", v.Class(), v.Event, rf.Violation.Class(), rf.Violation.Event)
			os.Exit(4)
		default:
			fmt.Printf("REPLAY reproduced %s at event %d: %s\n", v.Class(), v.Event, v.Detail)
			if rf.Violation != nil && v.Event != rf.Violation.Event {
				fmt.Printf("REPLAY note: event seq differs (%d vs %d)\n", v.Event, rf.Violation.Event)
				os.Exit(4)
			}
			os.Exit(1)
		}
	}

	runFrom := envInt("VERIF_RUN_FROM", 0)
	stride := envInt("VERIF_RUN_STRIDE", 1)
	count := envInt("VERIF_RUN_COUNT", 10)
	budget := time.Duration(envInt("VERIF_BUDGET_S", 3600)) * time.Second
	shrinkBudget := time.Duration(envInt("VERIF_SHRINK_S", 60)) * time.Second
	maxViol := envInt("VERIF_MAX_VIOL", 1)
	replayDir := os.Getenv("VERIF_REPLAY_DIR")
	if replayDir == "" {
		replayDir = "replays"
	}
	traceOnly := os.Getenv("VERIF_TRACE_DIR") // determinism self-test: dump abstract traces

	res := &WorkerResult{Engine: engineName, Property: prop, Tier: tier, Seed: seed, Faults: map[string]int{},
		Probes: map[string]int{}, KnownHits: map[string]int{}, KnownFirst: map[string]string{}}
	fp := map[uint64]struct{}{}
	fpNT := map[uint64]struct{}{}
	start := time.Now()
	seenClass := map[string]bool{}

	for i := 0; i < count; i++ {
		if time.Since(start) > budget {
			break
		}
		run := runFrom + i*stride
		tp := NewTape(RunSeed(seed, run))
		c := mkCtx(tp, run)
		w := watchdog(fmt.Sprintf("run %d", run))
		v, herr := RunOne(t, spec, c)
		w.Stop()
		res.Runs++
		res.Events += c.Events
		res.Checks += c.Checks
		res.SimTimeS += simSeconds(c)
		for k, n := range c.Faults {
			res.Faults[k] += n
		}
		for k, n := range c.Probes {
			res.Probes[k] += n
		}
		for k, n := range c.KnownHits {
			res.KnownHits[k] += n
			if _, ok := res.KnownFirst[k]; !ok {
				res.KnownFirst[k] = fmt.Sprintf("run %d: %s", run, c.KnownFirst[k])
			}
		}
		nontriv := len(c.Faults) > 0 && c.Progress > 0
		if nontriv {
			res.RunsFaulted++
		}
		for h := range c.FP {
			if len(fp) < maxFP {
				fp[h] = struct{}{}
			}
			if nontriv && len(fpNT) < maxFP {
				fpNT[h] = struct{}{}
			}
		}
		if len(res.Samples) < 2 && nontriv {
			res.Samples = append(res.Samples, sampleTrace(c.Trace, run))
			res.Seeds = append(res.Seeds, run)
		}
		if traceOnly != "" {
			os.MkdirAll(traceOnly, 0o755)
			os.WriteFile(filepath.Join(traceOnly, fmt.Sprintf("%s-%d-%d.trace", prop, seed, run)),
				[]byte(strings.Join(c.Trace, "\n")+fmt.Sprintf("\nviolation=%v herr=%v\n", v, herr)), 0o644)
		}
		if herr != nil {
			res.Harness = append(res.Harness, fmt.Sprintf("run %d: %v", run, herr))
			if len(res.Harness) >= 3 {
				break
			}
			continue
		}
		if v == nil {
			continue
		}
		if seenClass[v.Class()] {
			continue
		}
		seenClass[v.Class()] = true
		// minimise, then write the replay file
		orig := append([]uint32(nil), tp.Recorded()...)
		min, mv, mtrace, nruns := Shrink(t, spec, func(tt *Tape) *Ctx { return mkCtx(tt, run) }, orig, v, shrinkBudget, runTimeout)
		res.ShrinkRuns += nruns
		rf := ReplayFile{Engine: engineName, Property: prop, Tier: tier, Mode: mode, Seed: seed, Run: run, Tape: min,
			OrigLen: len(orig), OrigTape: orig, Violation: mv, Trace: mtrace, RepoHead: os.Getenv("VERIF_REPO_HEAD")}
		os.MkdirAll(replayDir, 0o755)
		p := filepath.Join(replayDir, fmt.Sprintf("%s-%d-%d.json", prop, seed, run))
		b, _ := json.MarshalIndent(rf, "", " ")
		if err := os.WriteFile(p, b, 0o644); err != nil {
			res.Harness = append(res.Harness, "cannot write replay: "+err.Error())
		}
		rf.Trace = tail(rf.Trace, 40)
		res.Violations = append(res.Violations, rf)
		res.ReplayPaths = append(res.ReplayPaths, p)
		if len(res.Violations) >= maxViol {
			break
		}
	}
	res.WallS = time.Since(start).Seconds()
	res.FP = keys(fp)
	res.FPNontriv = keys(fpNT)
	if len(res.Samples) == 0 {
		// fall back to any trace so that evidence always carries a sample
		tp := NewTape(RunSeed(seed, runFrom))
		c := mkCtx(tp, runFrom)
		RunOne(t, spec, c)
		res.Samples = append(res.Samples, sampleTrace(c.Trace, runFrom))
	}
	b, _ := json.Marshal(res)
	if p := os.Getenv("VERIF_OUT"); p != "" {
		if err := os.WriteFile(p, b, 0o644); err != nil {
			fmt.Fprintf(os.Stderr, "cannot write result: %v\n", err)
			os.Exit(2)
		}
	} else {
		os.Stdout.Write(b)
	}
}

func simSeconds(c *Ctx) float64 {
	return c.SimElapsed.Seconds()
}

func equalTrace(a, b []string) bool {
	if len(a) != len(b) {
		return false
	}
	for i := range a {
		if a[i] != b[i] {
			return false
		}
	}
	return true
}

func keys(m map[uint64]struct{}) []uint64 {
	ks := make([]uint64, 0, len(m))
	for k := range m {
		ks = append(ks, k)
	}
	sort.Slice(ks, func(i, j int) bool { return ks[i] < ks[j] })
	return ks
}

func tail(s []string, n int) []string {
	if len(s) <= n {
		return s
	}
	return s[len(s)-n:]
}

func sampleTrace(tr []string, run int) []string {
	out := []string{fmt.Sprintf("run=%d", run)}
	if len(tr) <= 60 {
		return append(out, tr...)
	}
	out = append(out, tr[:40]...)
	out = append(out, fmt.Sprintf("... (%d lines omitted) ...", len(tr)-60))
	return append(out, tr[len(tr)-20:]...)
}
