package simkit

import (
	"encoding/binary"
	"hash/fnv"

	"google.golang.org/protobuf/proto"
	"google.golang.org/protobuf/reflect/protoreflect"
)

// NestedUnknown returns an encoding of the message `in` (decoded into `fresh`, which fixes the schema)
// in which ONE sub-message - at any depth, including elements of repeated message fields and map
// values - carries an unknown field (number 1997, varint). Only message-typed fields are descended
// into, so the result is by construction "the same message plus an unknown field inside a nested
// message", which every consensus-critical decoder has to refuse. The sub-message is chosen by a
// hash of the input bytes: a pure function of the run's tape, and no tape position is consumed (old
// replay files keep their meaning). Returns nil when `in` does not decode or has no sub-message.
func NestedUnknown(in []byte, fresh proto.Message) (out []byte, path string) {
	if err := proto.Unmarshal(in, fresh); err != nil {
		return nil, ""
	}
	type cand struct {
		m    protoreflect.Message
		path string
	}
	var cands []cand
	var walk func(m protoreflect.Message, path string, depth int)
	walk = func(m protoreflect.Message, path string, depth int) {
		if depth > 12 {
			return
		}
		// deterministic field order: by field number
		fds := m.Descriptor().Fields()
		for i := 0; i < fds.Len(); i++ {
			fd := fds.Get(i)
			if fd.Kind() != protoreflect.MessageKind && !(fd.IsMap() && fd.MapValue().Kind() == protoreflect.MessageKind) {
				continue
			}
			if !m.Has(fd) {
				continue
			}
			v := m.Get(fd)
			p := path + "." + string(fd.Name())
			switch {
			case fd.IsMap():
				continue // map iteration order is not deterministic; no consensus message uses message-valued maps
			case fd.IsList():
				l := v.List()
				for j := 0; j < l.Len(); j++ {
					pj := p + "[]"
					cands = append(cands, cand{l.Get(j).Message(), pj})
					walk(l.Get(j).Message(), pj, depth+1)
				}
			default:
				cands = append(cands, cand{v.Message(), p})
				walk(v.Message(), p, depth+1)
			}
		}
	}
	walk(fresh.ProtoReflect(), "", 0)
	if len(cands) == 0 {
		return nil, ""
	}
	h := fnv.New64a()
	h.Write(in)
	hv := h.Sum64()
	// prefer list elements half of the time (the rarely walked path of a recursive validator)
	var lists []cand
	for _, c := range cands {
		if len(c.path) > 2 && c.path[len(c.path)-2:] == "[]" {
			lists = append(lists, c)
		}
	}
	pick := cands[int((hv>>8)%uint64(len(cands)))]
	if len(lists) > 0 && hv&1 == 0 {
		pick = lists[int((hv>>8)%uint64(len(lists)))]
	}
	unk := binary.AppendUvarint(nil, uint64(1997<<3|0))
	unk = append(unk, 1)
	pick.m.SetUnknown(append(append(protoreflect.RawFields(nil), pick.m.GetUnknown()...), unk...))
	bz, err := proto.MarshalOptions{Deterministic: true}.Marshal(fresh)
	if err != nil {
		return nil, ""
	}
	return bz, pick.path
}
