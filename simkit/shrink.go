package simkit

import (
	"testing"
	"time"
)

// Shrink minimises a failing tape with delta debugging over tape chunks: truncate,
// delete, zero, then halve single values. A candidate is accepted only if the run fails
// with the same violation class. Returns the minimal tape, its violation and its trace.
func Shrink(t *testing.T, spec EngineSpec, mk func(*Tape) *Ctx, tape []uint32, v *Violation,
	budget, runTimeout time.Duration) ([]uint32, *Violation, []string, int) {
	class := v.Class()
	start := time.Now()
	runs := 0
	var bestTrace []string
	bestV := v
	try := func(cand []uint32) ([]uint32, bool) {
		if time.Since(start) > budget {
			return nil, false
		}
		runs++
		tp := ReplayTape(cand)
		c := mk(tp)
		c.Replay = true
		nv, herr := RunOne(t, spec, c)
		if herr != nil || nv == nil || nv.Class() != class {
			return nil, false
		}
		// keep what the run actually consumed (drops unused tail)
		used := tp.Recorded()
		if len(used) > len(cand) {
			used = used[:len(cand)]
		}
		bestTrace, bestV = c.Trace, nv
		return append([]uint32{}, used...), true
	}
	cur := append([]uint32(nil), tape...)
	// normalise: replay of the original (gives us the trace of a replayed run)
	if n, ok := try(cur); ok {
		cur = n
	} else {
		// the original does not reproduce under replay: return it untouched (the caller's
		// fresh-process confirmation will flag the divergence)
		return tape, v, nil, runs
	}
	// 1. truncate tail (binary search on the shortest failing prefix)
	lo, hi := 0, len(cur)
	for lo < hi && time.Since(start) < budget {
		mid := (lo + hi) / 2
		if n, ok := try(cur[:mid]); ok {
			cur = n
			hi = len(cur)
			if mid < hi {
				hi = mid
			}
		} else {
			lo = mid + 1
		}
	}
	for pass := 0; pass < 3 && time.Since(start) < budget; pass++ {
		changed := false
		// 2. delete chunks
		for size := len(cur) / 2; size >= 1 && time.Since(start) < budget; size /= 2 {
			for i := 0; i+size <= len(cur) && time.Since(start) < budget; {
				cand := append(append([]uint32(nil), cur[:i]...), cur[i+size:]...)
				if n, ok := try(cand); ok {
					cur = n
					changed = true
				} else {
					i += size
				}
			}
			if size == 1 {
				break
			}
		}
		// 3. zero chunks
		for size := len(cur) / 2; size >= 1 && time.Since(start) < budget; size /= 2 {
			for i := 0; i+size <= len(cur) && time.Since(start) < budget; i += size {
				allZero := true
				for _, x := range cur[i : i+size] {
					if x != 0 {
						allZero = false
					}
				}
				if allZero {
					continue
				}
				cand := append([]uint32(nil), cur...)
				for j := i; j < i+size; j++ {
					cand[j] = 0
				}
				if n, ok := try(cand); ok {
					cur = n
					changed = true
				}
			}
			if size == 1 {
				break
			}
		}
		// 4. reduce single values
		for i := 0; i < len(cur) && time.Since(start) < budget; i++ {
			for cur[i] > 0 && time.Since(start) < budget {
				cand := append([]uint32(nil), cur...)
				cand[i] = cur[i] / 2
				if n, ok := try(cand); ok && len(n) > i {
					cur = n
					changed = true
				} else {
					break
				}
			}
		}
		if !changed {
			break
		}
	}
	// final run to make trace/violation correspond to cur exactly
	if n, ok := func() ([]uint32, bool) { b := budget; budget = 1 << 62; defer func() { budget = b }(); return try(cur) }(); ok {
		cur = n
	}
	return cur, bestV, bestTrace, runs
}
