#!/bin/bash
# usage: mutcheck.sh <patch.diff> <tier> <prop> [prop...]   -- applies the patch to /repo, runs the checks, reverts
patch=$1; tier=$2; shift 2
cd /repo || exit 2
if ! git diff --quiet; then echo "repo dirty"; exit 2; fi
git apply "$patch" || { echo "patch does not apply"; exit 2; }
cd /verif
for p in "$@"; do
  out=$(./check $p $tier 2>&1); rc=$?
  echo "$p rc=$rc $(echo "$out" | grep -E 'VIOLATION|WORKER-FAILED|BUILD-FAILED|HARNESS|REPLAY-DIVERGED' | head -3 | tr '\n' ' ')"
  echo "$out" | grep -E '^  (violation|detail)' | head -4
done
git -C /repo checkout -- . 
find /verif/replays -name "*.json" -delete; git -C /verif checkout -- evidence 2>/dev/null
