#!/usr/bin/env python3
"""Regenerates MANIFEST.json from checks.json + manifest_meta.json (single source of truth)."""
import json, os
ROOT = os.path.dirname(os.path.abspath(__file__))
T = json.load(open(f"{ROOT}/checks.json"))
M = json.load(open(f"{ROOT}/manifest_meta.json"))
props = [json.loads(l)["id"] for l in open(f"{ROOT}/properties.jsonl")]
checks = []
for p in props:
    if p not in T:
        continue
    c = T[p]
    meta = M["checks"][p]
    checks.append({
        "property_id": p,
        "quick_cmd": f"./check {p} quick",
        "thorough_cmd": f"./check {p} thorough",
        "evidence_file": f"evidence/{p}.json",
        "replay_cmd_template": f"./check {p} --replay {{path}}",
        "engine": c["engine"],
        "level_claimed": {"category": c["level"], "text": meta["level_text"], "design_ref": meta.get("design_ref", "DESIGN.md §5")},
        "level_note": meta["level_note"],
        "technique": meta["technique"],
    })
na = [{"property_id": p, "reason": M["not_applicable"].get(p, "check not built yet in this session (planned, see DESIGN.md)")} for p in props if p not in T]
man = {
    "version": 1,
    "setup_cmd": "./check build",
    "hooks": M["hooks"],
    "engines": M["engines"],
    "checks": checks,
    "not_applicable": na,
    "notes": M["notes"],
}
json.dump(man, open(f"{ROOT}/MANIFEST.json", "w"), indent=1)
print("checks:", [c["property_id"] for c in checks], "not claimed:", [n["property_id"] for n in na])
