// Package mixsim hosts checks that draw on more than one engine. C19 (unambiguous sign bytes and
// keys, untrusted bytes never crash a node) is decided on the consensus engine with corrupted
// messages (bftsim) and on the full-node engine with corrupted transactions and block messages
// (nodesim); the tape chooses the engine per run.
package mixsim

import (
	"testing"

	"verif/bftsim"
	"verif/nodesim"
	"verif/simkit"
)

func runC19(c *simkit.Ctx) {
	if c.T.Chance(1, 2) {
		c.Probe("engine_bftsim")
		bftsim.RunSafety(c)
		return
	}
	c.Probe("engine_nodesim")
	nodesim.RunChain(c)
}

func TestWorker(t *testing.T) {
	simkit.WorkerMain(t, "mixsim", map[string]simkit.EngineSpec{
		"C19": {Run: runC19, Bubble: true, LeakOK: true},
	})
}
