// Package mixsim hosts checks that draw on more than one engine. C09, C14 and C19 draw on several engines. C19 (unambiguous sign bytes and
// keys, untrusted bytes never crash a node) is decided on the consensus engine with corrupted
// messages (bftsim) and on the full-node engine with corrupted transactions and block messages
// (nodesim); the tape chooses the engine per run.
package mixsim

import (
	"testing"

	"verif/bftsim"
	"verif/nodesim"
	"verif/p2psim"
	"verif/simkit"
	"verif/storesim"
)

func runC19(c *simkit.Ctx) {
	switch c.T.Pick(2, 2, 1) {
	case 0:
		c.Probe("engine_bftsim")
		bftsim.RunSafety(c)
	case 1:
		c.Probe("engine_nodesim")
		nodesim.RunChain(c)
	default:
		c.Probe("engine_p2psim")
		p2psim.RunGarbage(c)
	}
}

// C14: evidence soundness is decided on the consensus engine (what did each correct replica really
// sign vs. who ends up in a slash list); "once per (validator, height)" and the per-committee cap
// are decided on the full-node engine's state machine.
func runC14(c *simkit.Ctx) {
	if c.T.Chance(3, 5) {
		c.Probe("engine_bftsim")
		bftsim.RunSafety(c)
		return
	}
	c.Probe("engine_nodesim")
	nodesim.RunChain(c)
}

// C09: crash consistency is decided on the store engine (crash images at every file-system operation
// of a commit) and, in one run out of seven, on whole nodes: a node process dies between blocks with
// all or none of its unsynced data, restarts on the surviving image and must hold exactly the chain's
// state at the height it comes back with.
func runC09(c *simkit.Ctx) {
	if c.T.Chance(6, 7) {
		c.Probe("engine_storesim")
		storesim.Run(c)
		return
	}
	c.Probe("engine_nodesim")
	nodesim.RunChain(c)
}

func TestWorker(t *testing.T) {
	simkit.WorkerMain(t, "mixsim", map[string]simkit.EngineSpec{
		"C19": {Run: runC19, Bubble: true, LeakOK: true},
		"C14": {Run: runC14, Bubble: true, LeakOK: true},
		"C09": {Run: runC09, Bubble: true, LeakOK: true},
	})
}
