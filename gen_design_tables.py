#!/usr/bin/env python3
"""Regenerates the generated parts of DESIGN.md: the seeded-changes table (from seeded/results.json and
seeded/*/meta.json) and the self-test summary (from evidence/selftest.json)."""
import json, os, re
ROOT = os.path.dirname(os.path.abspath(__file__))
s = open(f"{ROOT}/DESIGN.md").read()
R = json.load(open(f"{ROOT}/seeded/results.json"))
rows = ["| id | what was changed (sub-agent's summary, shortened) | caught by the quick tier of | note |", "|---|---|---|---|"]
for k in sorted(R):
    meta = json.load(open(f"{ROOT}/seeded/{k}/meta.json"))
    summ = meta.get("summary", "").replace("|", "/").replace("\n", " ")
    if len(summ) > 230:
        summ = summ[:227] + "..."
    r = R[k]
    rows.append(f"| {k} | {summ} | {'**' + r['check'] + '**' if r['caught_by_quick'] else 'not caught'} | {r.get('note','')} |")
caught = sum(1 for v in R.values() if v["caught_by_quick"])
table = (f"{len(R)} changes were written by fresh sub-agents (first wave: 20 agents, three changes per property; second wave, ids `-m4`: one\n"
         f"more for C03, C09, C12, C14, C15, C18, each agent told which sites the first wave had used; each saw only the property text and a scratch\n"
         f"worktree, never /verif). Each was confirmed in a scratch worktree (`verify_seed.sh`: the touched packages' existing\n"
         f"suites pass with the patch, the agent's demo fails with it and passes without) and is kept under `seeded/<id>/`.\n"
         f"Checks were run against each change in a sandbox copy of /repo and /verif (`/tmp/mv`), never in /repo itself.\n"
         f"**{caught} of {len(R)}** are reported as `VIOLATION` by the quick tier of the property's own check.\n\n" + "\n".join(rows))
def put(begin, end, body, s):
    if begin in s:
        return re.sub(re.escape(begin) + r".*?" + re.escape(end), begin + "\n" + body + "\n" + end, s, flags=re.S)
    return s
s = s.replace("SEEDED_TABLE_PLACEHOLDER", "<!-- SEEDED_TABLE_BEGIN -->\n<!-- SEEDED_TABLE_END -->")
s = s.replace("SELFTEST_PLACEHOLDER", "<!-- SELFTEST_BEGIN -->\n<!-- SELFTEST_END -->")
s = put("<!-- SEEDED_TABLE_BEGIN -->", "<!-- SEEDED_TABLE_END -->", table, s)
st = "(not run yet)"
p = f"{ROOT}/evidence/selftest.json"
if os.path.exists(p):
    d = json.load(open(p))
    ok = [k for k, v in d.items() if not v["diverged"]]
    bad = [k for k, v in d.items() if v["diverged"]]
    any1 = next(iter(d.values())) if d else {}
    st = (f"`./check selftest`: for each of {len(d)} properties, {any1.get('processes','?')} worker processes (GOMAXPROCS {any1.get('gomaxprocs','?')}) "
          f"each executed the same {any1.get('runs_per_process','?')} runs of seed {any1.get('seed','?')} and dumped the abstract event trace of every run; "
          f"the traces of a run must be byte-identical in all processes. Identical: {', '.join(sorted(ok)) or '-'}. Diverged: {', '.join(sorted(bad)) or 'none'}. "
          f"(evidence/selftest.json)")
s = put("<!-- SELFTEST_BEGIN -->", "<!-- SELFTEST_END -->", st, s)
# evidence summary
rows = ["| id | tier / seed | runs | runs per hour | simulated time | fault kinds fired (total firings) | distinct abstract states | engine |", "|---|---|---|---|---|---|---|---|"]
import glob
for f in sorted(glob.glob(f"{ROOT}/evidence/C*.json")):
    d = json.load(open(f)); c = d["coverage"]
    ff = c.get("faults_fired", {})
    rows.append(f"| {d['property_id']} | {d['tier']} / {d['seed']} | {c['evaluations']} | {c['runs_per_hour']} | {int(c['sim_time_s'])} s | {len(ff)} ({sum(ff.values())}) | {c['distinct_abstract_states_all_runs']} | {c['engine']} |")
ev = "Committed evidence files (each written by the check itself on the unchanged tree):\n\n" + "\n".join(rows)
if "<!-- EVIDENCE_BEGIN -->" not in s:
    s = s.replace("<!-- SELFTEST_END -->", "<!-- SELFTEST_END -->\n\n<!-- EVIDENCE_BEGIN -->\n<!-- EVIDENCE_END -->", 1)
s = put("<!-- EVIDENCE_BEGIN -->", "<!-- EVIDENCE_END -->", ev, s)
open(f"{ROOT}/DESIGN.md", "w").write(s)
print("caught", caught, "of", len(R))
