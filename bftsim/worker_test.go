package bftsim

import (
	"testing"

	"verif/simkit"
)

func TestWorker(t *testing.T) {
	simkit.WorkerMain(t, "bftsim", map[string]simkit.EngineSpec{
		"C01": {Run: RunSafety, Bubble: true},
		"C14": {Run: RunSafety, Bubble: true},
		"C15": {Run: RunLiveness, Bubble: true},
	})
}
