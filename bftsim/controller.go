package bftsim

import (
	"bytes"
	"crypto/sha256"
	"fmt"
	"sync"
	"sync/atomic"
	"time"

	"github.com/canopy-network/canopy/bft"
	"github.com/canopy-network/canopy/lib"
	"github.com/canopy-network/canopy/lib/crypto"
)

// simController implements bft.Controller for one replica: everything the consensus engine
// asks of the outside world (application, p2p, root chain, persistence).
type simController struct {
	n       *node
	mu      sync.Mutex
	syncing atomic.Bool
	fsmRst  int
}

var _ bft.Controller = (*simController)(nil)

func (s *simController) Lock()                   { s.mu.Lock() }
func (s *simController) Unlock()                 { s.mu.Unlock() }
func (s *simController) ChainHeight() uint64     { return s.n.chainHeight() }
func (s *simController) RootChainHeight() uint64 { return s.n.root }
func (s *simController) Syncing() *atomic.Bool   { return &s.syncing }
func (s *simController) ResetFSM()               { s.fsmRst++ }
func (s *simController) LoadIsOwnRoot() bool     { return false }
func (s *simController) LoadMaxBlockSize() int   { return 1_000_000 }
func (s *simController) LoadRootChainId(height uint64) uint64 {
	return 1
}
func (s *simController) SendCertificateResultsTx(*lib.QuorumCertificate) {}
func (s *simController) GossipConsensus(*bft.Message, []byte)            {}

func (s *simController) LoadCommittee(rootChainId, rootHeight uint64) (lib.ValidatorSet, lib.ErrorI) {
	w := s.n.w
	// committee-preserving root chain: the same committee at every root height that exists
	if rootHeight > w.global || rootHeight+50 < w.rootBase {
		return lib.ValidatorSet{}, lib.ErrNoValidators()
	}
	return w.vs, nil
}

func (s *simController) LoadCommitteeData() (*lib.CommitteeData, lib.ErrorI) {
	n := s.n
	d := &lib.CommitteeData{ChainId: 1, LastRootHeightUpdated: n.w.rootBase - 1, LastChainHeightUpdated: n.w.startH - 1}
	if rec, ok := n.committed[n.height]; ok {
		d.LastRootHeightUpdated = rec.qc.Header.RootHeight
		d.LastChainHeightUpdated = rec.height
	}
	return d, nil
}

func (s *simController) LoadLastProposers(rootHeight uint64) (*lib.Proposers, lib.ErrorI) {
	// deterministic, identical on every replica for a given root height
	p := &lib.Proposers{}
	for i := 0; i < 5; i++ {
		h := sha256.Sum256([]byte(fmt.Sprintf("proposer-%d-%d", rootHeight/4, i)))
		p.Addresses = append(p.Addresses, h[:20])
	}
	return p, nil
}

func (s *simController) LoadMinimumEvidenceHeight(rootChainId, rootHeight uint64) (*uint64, lib.ErrorI) {
	v := s.n.w.cfg.minEvidence
	return &v, nil
}

func (s *simController) IsValidDoubleSigner(rootChainId, rootHeight uint64, address []byte) bool {
	return !s.n.w.slashed[fmt.Sprintf("%x|%d", address, rootHeight)]
}

func (s *simController) LoadCertificate(height uint64) (*lib.QuorumCertificate, lib.ErrorI) {
	if rec, ok := s.n.committed[height]; ok {
		return rec.qc, nil
	}
	return nil, lib.ErrEmptyQuorumCertificate()
}

func (s *simController) CommitCertificate(qc *lib.QuorumCertificate, block *lib.Block, blockResult *lib.BlockResult, ts uint64) lib.ErrorI {
	return nil
}

// ---- application stub: opaque valid blocks ---------------------------------------------------

// makeBlock builds a structurally valid block for the node's next height.
func (n *node) makeBlock(tag string, valid bool) []byte {
	w := n.w
	w.blockSeq++
	h32 := func(s string) []byte { x := sha256.Sum256([]byte(s)); return x[:] }
	hdr := &lib.BlockHeader{
		Height: n.chainHeight(), NetworkId: 1, Time: uint64(w.now()/time.Microsecond) + 1,
		NumTxs: 1, TotalTxs: n.chainHeight(), LastBlockHash: h32(fmt.Sprintf("last-%d", n.height)),
		StateRoot: h32("state"), TransactionRoot: h32("txroot" + tag), ValidatorRoot: h32("vals"), NextValidatorRoot: h32("vals"),
		ProposerAddress: n.addr,
	}
	if hdr.Height > 1 {
		if rec, ok := n.committed[n.height]; ok {
			hdr.LastQuorumCertificate = &lib.QuorumCertificate{Header: rec.qc.Header, ResultsHash: rec.qc.ResultsHash, BlockHash: rec.qc.BlockHash,
				ProposerKey: rec.qc.ProposerKey, Signature: rec.qc.Signature}
		} else {
			// chain prefix below the simulated start: a syntactically valid placeholder certificate
			hdr.LastQuorumCertificate = &lib.QuorumCertificate{Header: &lib.View{NetworkId: 1, ChainId: 1, Height: n.height, RootHeight: w.rootBase - 1, Phase: lib.Phase_PRECOMMIT_VOTE},
				ResultsHash: h32("r"), BlockHash: h32("b"), ProposerKey: n.pub,
				Signature: &lib.AggregateSignature{Signature: make([]byte, crypto.BLS12381SignatureSize), Bitmap: []byte{1}}}
		}
	}
	payload := fmt.Sprintf("payload-%s-%d-n%d", tag, w.blockSeq, n.idx)
	if !valid {
		payload = "INVALID-" + payload
	}
	blk := &lib.Block{BlockHeader: hdr, Transactions: [][]byte{[]byte(payload)}}
	if _, err := hdr.SetHash(); err != nil {
		w.c.Harnessf("sethash: %v", err)
	}
	bz, err := lib.Marshal(blk)
	if err != nil {
		w.c.Harnessf("marshal block: %v", err)
	}
	return bz
}

func (n *node) makeResults(ds []*lib.DoubleSigner) *lib.CertificateResult {
	return &lib.CertificateResult{
		RewardRecipients: &lib.RewardRecipients{PaymentPercents: []*lib.PaymentPercents{{Address: n.addr, Percent: 100, ChainId: 1}}},
		SlashRecipients:  &lib.SlashRecipients{DoubleSigners: ds},
	}
}

func (s *simController) ProduceProposal(be *bft.ByzantineEvidence, vdf *crypto.VDF) (uint64, []byte, *lib.CertificateResult, lib.ErrorI) {
	n := s.n
	blk := n.makeBlock("honest", true)
	// what Controller.CalculateSlashRecipients does
	var ds []*lib.DoubleSigner
	if be != nil {
		var err lib.ErrorI
		ds, err = n.bft.ProcessDSE(be.DSE.Evidence...)
		if err != nil {
			ds = nil
		}
	}
	if len(ds) > 0 {
		n.w.checkSlashList(n, ds, "produced by correct leader")
	}
	res := n.makeResults(ds)
	n.w.c.Logf("n%d PRODUCE proposal h%d rcBuild=%d slashes=%d", n.idx, n.chainHeight(), n.root, len(ds))
	return n.root, blk, res, nil
}

func (s *simController) ValidateProposal(rcBuildHeight uint64, qc *lib.QuorumCertificate, evidence *bft.ByzantineEvidence) (*lib.BlockResult, lib.ErrorI) {
	n := s.n
	block, err := qc.CheckProposalBasic(n.chainHeight(), 1, 1)
	if err != nil {
		return nil, err
	}
	if err = n.bft.ValidateByzantineEvidence(qc.Results.SlashRecipients, evidence); err != nil {
		return nil, err
	}
	// application validity: the stub application rejects blocks carrying an INVALID payload
	for _, tx := range block.Transactions {
		if bytes.HasPrefix(tx, []byte("INVALID-")) {
			return nil, lib.ErrInvalidArgument()
		}
	}
	if err = qc.Results.CheckBasic(); err != nil {
		return nil, err
	}
	if qc.Results.SlashRecipients != nil && len(qc.Results.SlashRecipients.DoubleSigners) > 0 && !n.byz {
		n.w.checkSlashList(n, qc.Results.SlashRecipients.DoubleSigners, "accepted by correct replica")
	}
	return &lib.BlockResult{BlockHeader: block.BlockHeader}, nil
}

// ---- p2p stub ------------------------------------------------------------------------------------

func describe(m *bft.Message) string {
	switch {
	case m.IsProposerMessage():
		h := m.Header
		s := fmt.Sprintf("%s h%d rh%d r%d", lib.Phase_name[int32(h.Phase)], h.Height, h.RootHeight, h.Round)
		if m.Qc != nil && len(m.Qc.BlockHash) >= 3 {
			s += fmt.Sprintf(" blk=%x", m.Qc.BlockHash[:3])
		}
		if h.Phase == lib.Phase_PROPOSE || h.Phase == lib.Phase_PRECOMMIT {
			s += fmt.Sprintf(" rcb=%d", m.RcBuildHeight)
		}
		if m.HighQc != nil {
			s += fmt.Sprintf(" highqc=%x@rh%d/r%d", m.HighQc.BlockHash[:3], m.HighQc.Header.RootHeight, m.HighQc.Header.Round)
		}
		return s
	case m.IsPacemakerMessage():
		h := m.Qc.Header
		return fmt.Sprintf("PACEMAKER h%d rh%d r%d", h.Height, h.RootHeight, h.Round)
	case m.IsReplicaMessage():
		h := m.Qc.Header
		s := fmt.Sprintf("%s h%d rh%d r%d", lib.Phase_name[int32(h.Phase)], h.Height, h.RootHeight, h.Round)
		if len(m.Qc.BlockHash) >= 3 {
			s += fmt.Sprintf(" blk=%x", m.Qc.BlockHash[:3])
		}
		if m.HighQc != nil {
			s += " +highqc"
		}
		if len(m.LastDoubleSignEvidence) > 0 {
			s += fmt.Sprintf(" +%d evidence", len(m.LastDoubleSignEvidence))
		}
		return s
	}
	return "unknown"
}

func (s *simController) SendToReplicas(replicas lib.ValidatorSet, msg lib.Signable) {
	n := s.n
	m, ok := msg.(*bft.Message)
	if !ok {
		return
	}
	if n.byz && n.w.cfg.byzActive && n.w.adv.interceptBroadcast(n, m) {
		return
	}
	if err := m.Sign(n.key); err != nil {
		return
	}
	n.w.recordSigned(n, m)
	bz, err := lib.Marshal(m)
	if err != nil {
		return
	}
	n.w.adv.library(m, bz)
	d := describe(m)
	for _, v := range replicas.ValidatorSet.ValidatorSet {
		to, ok := n.w.pubIdx[string(v.PublicKey)]
		if !ok {
			continue
		}
		if n.w.cfg.byzActive && n.w.adv.blockedByPlan(n.idx, to, m) {
			continue
		}
		n.w.send(n.idx, to, bz, d)
	}
}

func (s *simController) SendToProposer(msg lib.Signable) {
	n := s.n
	m, ok := msg.(*bft.Message)
	if !ok {
		return
	}
	if err := m.Sign(n.key); err != nil {
		return
	}
	n.w.recordSigned(n, m)
	bz, err := lib.Marshal(m)
	if err != nil {
		return
	}
	n.w.adv.library(m, bz)
	to, ok := n.w.pubIdx[string(n.bft.ProposerKey)]
	if !ok {
		return
	}
	if n.w.cfg.byzActive && n.w.adv.hidesLock(n.idx, to, m) {
		return
	}
	n.w.send(n.idx, to, bz, describe(m))
}

// SelfSendBlock / GossipBlock are called from the helper goroutine StartCommitProcessPhase spawns:
// they only enqueue; the scheduler executes the effect.
func (s *simController) SelfSendBlock(qc *lib.QuorumCertificate, timestamp uint64) {
	n := s.n
	bz, err := lib.Marshal(qc)
	if err != nil {
		return
	}
	n.enqueue(func() {
		q := new(lib.QuorumCertificate)
		if lib.Unmarshal(bz, q) != nil {
			return
		}
		if q.Header.Height != n.chainHeight() {
			return // already committed this height through gossip
		}
		n.w.acceptCert(n, q, "own COMMIT message")
	})
}

func (s *simController) GossipBlock(qc *lib.QuorumCertificate, sender []byte, timestamp uint64) {
	n := s.n
	bz, err := lib.Marshal(qc)
	if err != nil {
		return
	}
	n.enqueue(func() {
		q := new(lib.QuorumCertificate)
		if lib.Unmarshal(bz, q) != nil {
			return
		}
		if n.byz && n.w.cfg.byzActive && !n.w.faultsOff() && n.w.c.T.Chance(1, 2) {
			n.w.c.Fault("byz_withholds_commit_gossip")
			return
		}
		if n.w.cfg.byzActive && n.w.adv.suppressGossip() && n.w.c.T.Chance(9, 10) {
			n.w.c.Fault("cert_gossip_lost")
			return
		}
		n.w.gossipCert(n, q)
	})
}

// ---- ground truth ------------------------------------------------------------------------------------

func viewKey(v *lib.View) string {
	return fmt.Sprintf("%d/%d/%d/%d", v.Height, v.RootHeight, v.Round, v.Phase)
}

// recordSigned logs what every validator really signed (replica votes), the ground truth for
// the "correct replica signs at most one payload per view" monitor and for C14.
func (w *world) recordSigned(n *node, m *bft.Message) {
	if !m.IsReplicaMessage() {
		return
	}
	pk := string(n.pub)
	vk := viewKey(m.Qc.Header)
	if w.truth[pk] == nil {
		w.truth[pk] = map[string]map[string]bool{}
	}
	if w.truth[pk][vk] == nil {
		w.truth[pk][vk] = map[string]bool{}
	}
	ph := crypto.HashString(m.SignBytes())
	w.truth[pk][vk][ph] = true
	if !n.byz && len(w.truth[pk][vk]) > 1 && m.Qc.Header.Phase > lib.Phase_PROPOSE {
		w.c.ReportFor("C14", "honest-never-implicated", "correct-replica-signed-two-payloads-in-one-view",
			fmt.Sprintf("correct replica n%d signed %d different payloads in view %s", n.idx, len(w.truth[pk][vk]), vk))
	}
}

// checkSlashList is the C14 soundness oracle: everyone a correct node accepts into a slash list
// signed at least two distinct payloads in some view with that root height (ground truth).
func (w *world) checkSlashList(n *node, ds []*lib.DoubleSigner, how string) {
	c := w.c
	for _, d := range ds {
		c.Check()
		idx, ok := w.pubIdx[string(d.Id)]
		if !ok {
			c.ReportFor("C14", "evidence-sound", "unknown-validator-slashed", fmt.Sprintf("%s: slash list names unknown key %x", how, d.Id))
			continue
		}
		for _, h := range d.Heights {
			equivocated := false
			for vk, payloads := range w.truth[string(d.Id)] {
				var vh, vrh, vr, vp uint64
				fmt.Sscanf(vk, "%d/%d/%d/%d", &vh, &vrh, &vr, &vp)
				if vrh == h && vp > uint64(lib.Phase_PROPOSE) && len(payloads) >= 2 {
					equivocated = true
				}
			}
			c.Probe("slash_list_checked")
			if !equivocated {
				who := "correct"
				if w.nodes[idx].byz {
					who = "Byzantine"
				}
				c.ReportFor("C14", "evidence-sound", "slashed-without-equivocation-"+who,
					fmt.Sprintf("%s (n%d): validator n%d (%s) is in the slash list for root height %d but never signed two payloads in one view there", how, n.idx, idx, who, h))
			} else {
				c.Probe("true_equivocation_slashed")
			}
		}
	}
}
