package bftsim

import (
	"bytes"
	"fmt"
	"sort"
	"time"

	"github.com/canopy-network/canopy/bft"
	"github.com/canopy-network/canopy/lib"
	"github.com/canopy-network/canopy/lib/crypto"
)

// The adversary controls the Byzantine validators' keys (power < 1/3) and the network: it
// sees every message in flight, can aggregate any signatures it has seen, and crafts leader
// messages, votes, pacemaker messages and double-sign evidence from them.

type voteAgg struct {
	payload *lib.QuorumCertificate // Header, BlockHash, ResultsHash, ProposerKey (what was signed)
	mk      crypto.MultiPublicKeyI
	power   uint64
	signers map[int]bool
	key     string
}

type knownBlock struct {
	block   []byte
	results *lib.CertificateResult
}

const (
	planChaos        = 0 // random menu at every opportunity
	planLockBreak    = 1 // partial commits + Byzantine leader proposing fresh blocks against locks, followed through
	planPartialLocks = 3 // leader messages reach only part of the replicas (partial locks, partial commits), election votes that reveal locks get lost, Byzantine leaders justify proposals with any certificate ever formed
	planStaleHighQC  = 2 // withhold a PROPOSE_VOTE certificate, wait for a root-height bump, replay it as HighQc against newer locks
)

type adversary struct {
	plan         int
	minRound     int
	follow       map[string]bool // payload hashes (block hash) the adversary pushes through all phases
	sent         map[string]bool // crafted leader messages already sent (phase|payload|view)
	partial      map[uint64]bool // heights at which a COMMIT was withheld from some correct replica
	commitTarget map[uint64]int  // height -> the only correct replica allowed to receive COMMIT messages
	withheld     []*voteAgg      // full PROPOSE_VOTE certificates whose PRECOMMIT was withheld
	w            *world
	votes        map[string]*voteAgg // by hash of the vote sign bytes
	order        []string            // insertion order (deterministic iteration)
	blocks       map[string]*knownBlock
	qcs          []*lib.QuorumCertificate // justification certificates seen in leader messages
	raw          [][]byte
	rawTo        []int
}

func newAdversary(w *world) *adversary {
	return &adversary{w: w, votes: map[string]*voteAgg{}, blocks: map[string]*knownBlock{}, follow: map[string]bool{}, sent: map[string]bool{},
		commitTarget: map[uint64]int{}}
}

// library records a signed message seen in flight.
func (a *adversary) library(m *bft.Message, bz []byte) {
	if len(a.raw) < 400 {
		a.raw = append(a.raw, bz)
	}
	switch {
	case m.IsReplicaMessage():
		idx, ok := a.w.pubIdx[string(m.Signature.PublicKey)]
		if !ok {
			return
		}
		k := crypto.HashString(m.SignBytes())
		ag, ok := a.votes[k]
		if !ok {
			ag = &voteAgg{payload: &lib.QuorumCertificate{Header: m.Qc.Header.Copy(), BlockHash: m.Qc.BlockHash, ResultsHash: m.Qc.ResultsHash, ProposerKey: m.Qc.ProposerKey},
				mk: a.w.vs.MultiKey.Copy(), signers: map[int]bool{}, key: k}
			a.votes[k] = ag
			a.order = append(a.order, k)
		}
		if ag.signers[idx] {
			return
		}
		if err := ag.mk.AddSigner(m.Signature.Signature, idx); err != nil {
			return
		}
		ag.signers[idx] = true
		before := ag.power
		ag.power += a.w.cfg.stakes[idx]
		if before < a.w.vs.MinimumMaj23 && ag.power >= a.w.vs.MinimumMaj23 {
			a.onQuorum(ag)
		}
	case m.IsProposerMessage():
		if m.Qc != nil && m.Qc.Block != nil && m.Qc.Results != nil && len(m.Qc.BlockHash) > 0 {
			a.blocks[string(m.Qc.BlockHash)] = &knownBlock{block: m.Qc.Block, results: m.Qc.Results}
		}
		if m.Qc != nil && m.Qc.Signature != nil && len(a.qcs) < 200 {
			a.qcs = append(a.qcs, m.Qc)
		}
	}
}

func (a *adversary) observe(n *node, m *bft.Message, data []byte) {
	w := a.w
	c := w.c
	if w.faultsOff() && c.Prop != "C15" {
		return
	}
	// vote for everything: a Byzantine replica signs a vote for any leader payload it is shown
	fromByz := false
	if m.Signature != nil {
		if i, ok := w.pubIdx[string(m.Signature.PublicKey)]; ok {
			fromByz = w.nodes[i].byz
		}
	}
	if m.IsProposerMessage() && m.Qc != nil && (m.Header.Phase == lib.Phase_PROPOSE || m.Header.Phase == lib.Phase_PRECOMMIT) &&
		((a.plan != planChaos && fromByz && a.follow[string(m.Qc.BlockHash)]) || c.T.Chance(1, 3)) {
		h := m.Header.Copy()
		h.Phase = m.Header.Phase + 1
		vote := &bft.Message{Qc: &lib.QuorumCertificate{Header: h, BlockHash: m.Qc.BlockHash, ResultsHash: m.Qc.ResultsHash, ProposerKey: m.Signature.PublicKey}}
		if m.Header.Phase == lib.Phase_PRECOMMIT {
			vote.Qc.ProposerKey = m.Qc.ProposerKey
		}
		a.signAndSend(n, vote, []int{w.pubIdx[string(m.Signature.PublicKey)]}, "byz-vote-for-anything")
		c.Fault("byz_vote_for_anything")
	}
}

// signAndSend signs with the Byzantine node's key and sends to the given recipients.
func (a *adversary) signAndSend(n *node, m *bft.Message, to []int, what string) {
	w := a.w
	if err := m.Sign(n.key); err != nil {
		return
	}
	w.recordSigned(n, m)
	bz, err := lib.Marshal(m)
	if err != nil {
		return
	}
	a.library(m, bz)
	for _, t := range to {
		if t < 0 || t >= len(w.nodes) {
			continue
		}
		w.send(n.idx, t, bz, what+": "+describe(m))
	}
}

func (a *adversary) subset(all bool) []int {
	w := a.w
	var out []int
	for i := range w.nodes {
		if all || w.c.T.Chance(1, 2) {
			out = append(out, i)
		}
	}
	return out
}

func (a *adversary) aggSig(ag *voteAgg) *lib.AggregateSignature {
	sig, err := ag.mk.AggregateSignatures()
	if err != nil {
		return nil
	}
	return &lib.AggregateSignature{Signature: sig, Bitmap: ag.mk.Bitmap()}
}

func (a *adversary) full(ag *voteAgg) bool { return ag.power >= a.w.vs.MinimumMaj23 }

// aggregates returns vote aggregates matching a filter, in deterministic order.
func (a *adversary) aggregates(f func(*voteAgg) bool) []*voteAgg {
	var out []*voteAgg
	for _, k := range a.order {
		if ag := a.votes[k]; f(ag) {
			out = append(out, ag)
		}
	}
	return out
}

// asQC turns an aggregate into a certificate object (optionally with block/results attached).
func (a *adversary) asQC(ag *voteAgg, withBlock bool) *lib.QuorumCertificate {
	sig := a.aggSig(ag)
	if sig == nil {
		return nil
	}
	q := &lib.QuorumCertificate{Header: ag.payload.Header.Copy(), BlockHash: ag.payload.BlockHash, ResultsHash: ag.payload.ResultsHash,
		ProposerKey: ag.payload.ProposerKey, Signature: sig}
	if withBlock {
		kb, ok := a.blocks[string(ag.payload.BlockHash)]
		if !ok {
			return nil
		}
		q.Block, q.Results = kb.block, kb.results
	}
	return q
}

// interceptBroadcast lets a Byzantine leader tamper with its own engine's broadcast.
// Returns true if the adversary handled (replaced / restricted) the broadcast.
func (a *adversary) interceptBroadcast(n *node, m *bft.Message) bool {
	w := a.w
	c := w.c
	if w.faultsOff() && c.Prop != "C15" {
		return false
	}
	if !m.IsProposerMessage() || m.Header.Phase == lib.Phase_ELECTION {
		return false
	}
	if a.plan != planChaos {
		if m.Header.Phase == lib.Phase_PROPOSE {
			return a.planPropose(n, m)
		}
		// PRECOMMIT / COMMIT of the engine's own payload are replaced by the follow-through automation
		return true
	}
	switch c.T.Pick(4, 2, 2, 1) {
	case 0:
		return false
	case 1: // withhold from a subset
		to := a.subset(false)
		c.Fault("byz_leader_withholds")
		c.Logf("n%d(byz) sends %s only to %v", n.idx, describe(m), to)
		a.signAndSend(n, m, to, "withheld")
		return true
	case 2: // equivocate (PROPOSE only): a second, different block to part of the replicas
		if m.Header.Phase != lib.Phase_PROPOSE || m.Qc == nil {
			return false
		}
		alt := a.cloneProposeWithNewBlock(n, m, true)
		if alt == nil {
			return false
		}
		var ga, gb []int
		for i := range w.nodes {
			if c.T.Chance(1, 2) {
				ga = append(ga, i)
			} else {
				gb = append(gb, i)
			}
		}
		c.Fault("byz_leader_equivocates")
		c.Logf("n%d(byz) EQUIVOCATES: blk=%x to %v, blk=%x to %v", n.idx, m.Qc.BlockHash[:3], ga, alt.Qc.BlockHash[:3], gb)
		a.signAndSend(n, m, ga, "equivocation-A")
		a.signAndSend(n, alt, gb, "equivocation-B")
		return true
	default: // silent
		c.Fault("byz_leader_silent")
		return true
	}
}

func (a *adversary) cloneProposeWithNewBlock(n *node, m *bft.Message, valid bool) *bft.Message {
	blk := n.makeBlock("byz", valid)
	hash := n.bft.BlockToHash(blk)
	if hash == nil {
		return nil
	}
	res := n.makeResults(nil)
	a.blocks[string(hash)] = &knownBlock{block: blk, results: res}
	return &bft.Message{
		Header: m.Header.Copy(),
		Qc: &lib.QuorumCertificate{Header: m.Qc.Header, Results: res, ResultsHash: res.Hash(), Block: blk, BlockHash: hash,
			ProposerKey: m.Qc.ProposerKey, Signature: m.Qc.Signature},
		RcBuildHeight: m.RcBuildHeight,
	}
}

// opportunity: after a Byzantine node's own phase step the adversary may act on its behalf.
func (a *adversary) opportunity(n *node) {
	w := a.w
	c := w.c
	b := n.bft
	view := b.View.Copy()
	if c.Prop == "C14" && c.T.Chance(1, 3) {
		a.actEvidence(n, view)
		return
	}
	if a.plan != planChaos {
		if c.T.Chance(1, 6) {
			a.actElectionVoteSpray(n, view)
		}
		return
	}
	switch c.T.Pick(6, 3, 3, 3, 2, 2, 2, 2) {
	case 0:
		return
	case 1:
		a.actPropose(n, view)
	case 2:
		a.actPrecommit(n, view)
	case 3:
		a.actCommit(n, view)
	case 4:
		a.actPacemakerLie(n, view)
	case 5:
		a.actReplay(n)
	case 6:
		a.actEvidence(n, view)
	case 7:
		a.actElectionVoteSpray(n, view)
	}
}

// actPropose: craft a PROPOSE as leader of some round of the current height: fresh block that
// ignores every lock, or any stored PROPOSE_VOTE certificate replayed as HighQc (including
// certificates gathered under an earlier root height / higher round).
func (a *adversary) actPropose(n *node, view *lib.View) {
	w := a.w
	c := w.c
	// election certificates naming this node as leader at this height
	els := a.aggregates(func(ag *voteAgg) bool {
		h := ag.payload.Header
		return h.Phase == lib.Phase_ELECTION_VOTE && h.Height == view.Height && bytes.Equal(ag.payload.ProposerKey, n.pub)
	})
	if len(els) == 0 {
		return
	}
	el := els[len(els)-1-c.T.Intn(minInt(len(els), 3))]
	elQC := a.asQC(el, false)
	if elQC == nil {
		return
	}
	hdr := el.payload.Header.Copy()
	hdr.Phase = lib.Phase_PROPOSE
	m := &bft.Message{Header: hdr, Qc: &lib.QuorumCertificate{Header: el.payload.Header, ProposerKey: n.pub, Signature: elQC.Signature}, RcBuildHeight: n.root}
	// choose the payload
	locks := a.aggregates(func(ag *voteAgg) bool {
		h := ag.payload.Header
		_, known := a.blocks[string(ag.payload.BlockHash)]
		return h.Phase == lib.Phase_PROPOSE_VOTE && h.Height == view.Height && a.full(ag) && known
	})
	useLock := len(locks) > 0 && c.T.Chance(1, 2)
	if useLock {
		lk := locks[c.T.Intn(len(locks))]
		hq := a.asQC(lk, true)
		if hq == nil {
			return
		}
		m.HighQc = hq
		m.Qc.Block, m.Qc.Results = hq.Block, hq.Results
		m.Qc.BlockHash, m.Qc.ResultsHash = hq.BlockHash, hq.ResultsHash
		if lk.payload.Header.RootHeight != hdr.RootHeight {
			c.Probe("stale_root_height_highqc_replayed")
		}
		c.Fault("byz_propose_replayed_highqc")
	} else {
		alt := a.cloneProposeWithNewBlock(n, m, !c.T.Chance(1, 6))
		if alt == nil {
			return
		}
		m = alt
		c.Fault("byz_propose_fresh_block_ignoring_locks")
	}
	if !a.full(el) {
		c.Probe("byz_propose_with_partial_election_qc")
	}
	a.signAndSend(n, m, a.subset(c.T.Chance(1, 2)), "byz-propose")
}

func minInt(a, b int) int {
	if a < b {
		return a
	}
	return b
}

// actPrecommit / actCommit: craft the next leader message for ANY payload that has votes in the
// library (full or partial certificate), to any subset.
func (a *adversary) actPrecommit(n *node, view *lib.View) {
	a.actLeaderStep(n, view, lib.Phase_PROPOSE_VOTE, lib.Phase_PRECOMMIT, "byz-precommit")
}

func (a *adversary) actCommit(n *node, view *lib.View) {
	a.actLeaderStep(n, view, lib.Phase_PRECOMMIT_VOTE, lib.Phase_COMMIT, "byz-commit")
}

func (a *adversary) actLeaderStep(n *node, view *lib.View, votePhase, msgPhase lib.Phase, what string) {
	w := a.w
	c := w.c
	ags := a.aggregates(func(ag *voteAgg) bool {
		h := ag.payload.Header
		return h.Phase == votePhase && h.Height == view.Height && bytes.Equal(ag.payload.ProposerKey, n.pub)
	})
	if len(ags) == 0 {
		return
	}
	ag := ags[len(ags)-1-c.T.Intn(minInt(len(ags), 4))]
	q := a.asQC(ag, false)
	if q == nil {
		return
	}
	hdr := ag.payload.Header.Copy()
	hdr.Phase = msgPhase
	m := &bft.Message{Header: hdr, Qc: q, RcBuildHeight: n.root}
	if msgPhase == lib.Phase_COMMIT {
		m.Timestamp = uint64(w.now().Microseconds())
	}
	if a.full(ag) {
		c.Fault(what + "_full_qc")
	} else {
		c.Fault(what + "_partial_qc")
	}
	a.signAndSend(n, m, a.subset(false), what)
}

func (a *adversary) actPacemakerLie(n *node, view *lib.View) {
	c := a.w.c
	h := view.Copy()
	h.Phase = lib.Phase_ROUND_INTERRUPT
	h.Round = view.Round + uint64(1+c.T.Intn(6))
	c.Fault("byz_pacemaker_lie")
	a.signAndSend(n, &bft.Message{Qc: &lib.QuorumCertificate{Header: h}}, a.subset(true), "byz-pacemaker")
}

// actReplay: the network adversary re-delivers any stored message to any node.
func (a *adversary) actReplay(n *node) {
	w := a.w
	c := w.c
	if len(a.raw) == 0 {
		return
	}
	bz := a.raw[c.T.Intn(len(a.raw))]
	to := c.T.Intn(len(w.nodes))
	c.Fault("replay_old_message")
	w.push(&event{at: w.now(), kind: "msg", to: to, from: n.idx, data: bz, desc: "replayed"})
}

// actElectionVoteSpray: Byzantine replica election-votes for several candidates at once.
func (a *adversary) actElectionVoteSpray(n *node, view *lib.View) {
	w := a.w
	c := w.c
	h := view.Copy()
	h.Phase = lib.Phase_ELECTION_VOTE
	for i := range w.nodes {
		if !c.T.Chance(1, 2) {
			continue
		}
		m := &bft.Message{Qc: &lib.QuorumCertificate{Header: h.Copy(), ProposerKey: w.nodes[i].pub}}
		// forward the highest lock it knows, or a stale one
		a.signAndSend(n, m, []int{i}, "byz-election-vote")
	}
	c.Fault("byz_election_vote_spray")
}

// actEvidence: fabricate double-sign evidence from honest signatures and feed it to leaders
// (attached to an ELECTION_VOTE) or, as leader, propose a slash list.
func (a *adversary) actEvidence(n *node, view *lib.View) {
	w := a.w
	c := w.c
	cands := a.aggregates(func(ag *voteAgg) bool {
		return ag.payload.Header.Phase != lib.Phase_ROUND_INTERRUPT && len(ag.signers) > 0
	})
	if len(cands) < 2 {
		return
	}
	var evs []*bft.DoubleSignEvidence
	nEv := 1 + c.T.Intn(2)
	kinds := []string{}
	for k := 0; k < nEv; k++ {
		x := cands[c.T.Intn(len(cands))]
		var y *voteAgg
		kind := c.T.Pick(3, 2, 2, 2, 1)
		switch kind {
		case 0: // same view, different payload (true equivocation evidence if signers overlap)
			for _, z := range cands {
				if z != x && viewKey(z.payload.Header) == viewKey(x.payload.Header) {
					y = z
				}
			}
			kinds = append(kinds, "same-view-pair")
		case 1: // same certificate twice
			y = x
			kinds = append(kinds, "same-payload-pair")
		case 2: // near miss: same height and phase, different payload, but another round or root height, sharing signers
			for _, z := range cands {
				zh, xh := z.payload.Header, x.payload.Header
				if z == x || zh.Height != xh.Height || zh.Phase != xh.Phase || viewKey(zh) == viewKey(xh) || bytes.Equal(z.payload.BlockHash, x.payload.BlockHash) {
					continue
				}
				shared := false
				for i := range z.signers {
					if x.signers[i] {
						shared = true
					}
				}
				if shared {
					y = z
					if zh.Round != xh.Round && zh.RootHeight == xh.RootHeight {
						break
					}
				}
			}
			if y == nil {
				y = cands[c.T.Intn(len(cands))]
			}
			kinds = append(kinds, "cross-view-pair")
		case 3: // cross-view but with the header of A forged onto B's payload (signature will not verify)
			z := cands[c.T.Intn(len(cands))]
			y = &voteAgg{payload: &lib.QuorumCertificate{Header: x.payload.Header.Copy(), BlockHash: z.payload.BlockHash, ResultsHash: z.payload.ResultsHash, ProposerKey: z.payload.ProposerKey},
				mk: z.mk, power: z.power, signers: z.signers}
			kinds = append(kinds, "retargeted-header-pair")
		default: // same view, same block, different proposer key (payload differs only in proposer)
			for _, z := range cands {
				if z != x && viewKey(z.payload.Header) == viewKey(x.payload.Header) && bytes.Equal(z.payload.BlockHash, x.payload.BlockHash) {
					y = z
				}
			}
			kinds = append(kinds, "same-block-different-proposer")
		}
		if y == nil {
			continue
		}
		qa, qb := a.asQC(x, false), a.asQC(y, false)
		if qa == nil || qb == nil {
			continue
		}
		evs = append(evs, &bft.DoubleSignEvidence{VoteA: qa, VoteB: qb})
	}
	if len(evs) == 0 {
		return
	}
	sort.Strings(kinds)
	c.Fault("byz_fabricated_evidence")
	for _, k := range kinds {
		c.Probe("evidence_kind_" + k)
	}
	if c.T.Chance(1, 2) {
		// attach to an election vote for every node (whoever becomes leader processes it)
		h := view.Copy()
		h.Phase = lib.Phase_ELECTION_VOTE
		for i := range w.nodes {
			m := &bft.Message{Qc: &lib.QuorumCertificate{Header: h.Copy(), ProposerKey: w.nodes[i].pub}, LastDoubleSignEvidence: evs}
			a.signAndSend(n, m, []int{i}, fmt.Sprintf("byz-election-vote+evidence%v", kinds))
		}
		return
	}
	// as leader: propose a block whose results slash arbitrary victims, justified by the fabricated evidence
	els := a.aggregates(func(ag *voteAgg) bool {
		h := ag.payload.Header
		return h.Phase == lib.Phase_ELECTION_VOTE && h.Height == view.Height && bytes.Equal(ag.payload.ProposerKey, n.pub) && a.full(ag)
	})
	if len(els) == 0 {
		return
	}
	el := els[len(els)-1]
	elQC := a.asQC(el, false)
	if elQC == nil {
		return
	}
	hdr := el.payload.Header.Copy()
	hdr.Phase = lib.Phase_PROPOSE
	var ds []*lib.DoubleSigner
	for i := range w.nodes {
		if c.T.Chance(1, 3) {
			// the claimed height rotates over the root heights of ALL attached evidence (no extra tape draw): with
			// evidence against X at one root height and against Y at another, X gets claimed at Y's height
			ds = append(ds, &lib.DoubleSigner{Id: w.nodes[i].pub, Heights: []uint64{evs[i%len(evs)].VoteA.Header.RootHeight}})
			if len(evs) > 1 && evs[0].VoteA.Header.RootHeight != evs[1].VoteA.Header.RootHeight {
				c.Probe("slash_list_claims_across_root_heights")
			}
		}
	}
	blk := n.makeBlock("byz-slash", true)
	hash := n.bft.BlockToHash(blk)
	res := n.makeResults(ds)
	a.blocks[string(hash)] = &knownBlock{block: blk, results: res}
	m := &bft.Message{Header: hdr, Qc: &lib.QuorumCertificate{Header: el.payload.Header, Results: res, ResultsHash: res.Hash(), Block: blk, BlockHash: hash,
		ProposerKey: n.pub, Signature: elQC.Signature}, LastDoubleSignEvidence: evs, RcBuildHeight: n.root}
	c.Fault("byz_propose_with_slash_list")
	a.signAndSend(n, m, a.subset(true), fmt.Sprintf("byz-propose+slash%d%v", len(ds), kinds))
}

// ---- goal-directed plans -----------------------------------------------------------------------

func (a *adversary) byzIdx(pub []byte) (*node, bool) {
	i, ok := a.w.pubIdx[string(pub)]
	if !ok || !a.w.nodes[i].byz {
		return nil, false
	}
	return a.w.nodes[i], true
}

// onQuorum: a vote aggregate just reached +2/3. If it is for a payload the adversary is pushing
// and names a Byzantine leader, craft the next leader message at once.
func (a *adversary) onQuorum(ag *voteAgg) {
	w := a.w
	if a.plan == planChaos || (w.faultsOff() && w.c.Prop != "C15") {
		return
	}
	n, ok := a.byzIdx(ag.payload.ProposerKey)
	if !ok {
		return
	}
	h := ag.payload.Header
	switch h.Phase {
	case lib.Phase_PROPOSE_VOTE:
		if !a.follow[string(ag.payload.BlockHash)] {
			return
		}
		if a.plan == planStaleHighQC && h.Round >= uint64(a.minRound) && len(a.withheld) < 4 && h.RootHeight == w.global && !a.sent["replayed|"+string(ag.payload.BlockHash)] {
			// keep this certificate secret: nobody locks on it, it will be replayed after a root bump
			a.withheld = append(a.withheld, ag)
			// the root chain produces its next block soon afterwards (timing of root updates is free)
			w.push(&event{at: w.now() + time.Duration(w.c.T.Intn(w.cfg.phaseMS*4))*time.Millisecond, kind: "rootbump"})
			w.c.Fault("byz_withholds_propose_vote_certificate")
			w.c.Logf("adversary WITHHOLDS PROPOSE_VOTE certificate for blk=%x at rh%d/r%d", ag.payload.BlockHash[:3], h.RootHeight, h.Round)
			return
		}
		a.craftNext(n, ag, lib.Phase_PRECOMMIT)
	case lib.Phase_PRECOMMIT_VOTE:
		if !a.follow[string(ag.payload.BlockHash)] {
			return
		}
		a.craftNext(n, ag, lib.Phase_COMMIT)
	}
}

func (a *adversary) craftNext(n *node, ag *voteAgg, phase lib.Phase) {
	w := a.w
	key := fmt.Sprintf("%d|%s", phase, ag.key)
	if a.sent[key] {
		return
	}
	a.sent[key] = true
	q := a.asQC(ag, false)
	if q == nil {
		return
	}
	hdr := ag.payload.Header.Copy()
	hdr.Phase = phase
	m := &bft.Message{Header: hdr, Qc: q, RcBuildHeight: n.root}
	if phase == lib.Phase_COMMIT {
		m.Timestamp = uint64(w.now().Microseconds())
	}
	var to []int
	for i := range w.nodes {
		to = append(to, i)
	}
	w.c.Fault("byz_follow_through_" + lib.Phase_name[int32(phase)])
	a.signAndSend(n, m, to, "byz-follow-through")
}

// planPropose is called when a Byzantine node's engine is about to broadcast its own PROPOSE:
// the plan replaces it.
func (a *adversary) planPropose(n *node, m *bft.Message) bool {
	w := a.w
	c := w.c
	if m.Qc == nil || m.Qc.Signature == nil {
		return false
	}
	var to []int
	for i := range w.nodes {
		to = append(to, i)
	}
	// replay a withheld certificate from an earlier root height with a higher round
	if a.plan == planStaleHighQC {
		for _, ag := range a.withheld {
			h := ag.payload.Header
			if h.Height == m.Header.Height && h.RootHeight < m.Header.RootHeight && a.worthReplaying(ag) {
				hq := a.asQC(ag, true)
				if hq == nil {
					continue
				}
				alt := &bft.Message{Header: m.Header.Copy(), Qc: &lib.QuorumCertificate{Header: m.Qc.Header, Results: hq.Results, ResultsHash: hq.ResultsHash,
					Block: hq.Block, BlockHash: hq.BlockHash, ProposerKey: m.Qc.ProposerKey, Signature: m.Qc.Signature}, HighQc: hq, RcBuildHeight: m.RcBuildHeight}
				c.Fault("byz_replays_withheld_certificate_across_root_heights")
				c.Probe("stale_root_height_highqc_replayed")
				c.Logf("adversary n%d REPLAYS withheld certificate blk=%x from rh%d/r%d as HighQc at rh%d/r%d", n.idx, hq.BlockHash[:3], h.RootHeight, h.Round, m.Header.RootHeight, m.Header.Round)
				a.follow[string(hq.BlockHash)] = true
				a.sent["replayed|"+string(hq.BlockHash)] = true
				a.signAndSend(n, alt, to, "byz-stale-highqc")
				return true
			}
		}
	}
	if a.plan == planPartialLocks && c.T.Chance(3, 4) {
		locks := a.aggregates(func(ag *voteAgg) bool {
			h := ag.payload.Header
			_, known := a.blocks[string(ag.payload.BlockHash)]
			return h.Phase == lib.Phase_PROPOSE_VOTE && h.Height == m.Header.Height && a.full(ag) && known
		})
		if len(locks) > 0 {
			// prefer a certificate for a block no correct replica has committed
			pick := locks[c.T.Intn(len(locks))]
			if rec, ok := w.firstAt[m.Header.Height]; ok {
				for _, lk := range locks {
					if !bytes.Equal(lk.payload.BlockHash, rec.blockHash) {
						pick = lk
					}
				}
			}
			if hq := a.asQC(pick, true); hq != nil {
				alt := &bft.Message{Header: m.Header.Copy(), Qc: &lib.QuorumCertificate{Header: m.Qc.Header, Results: hq.Results, ResultsHash: hq.ResultsHash,
					Block: hq.Block, BlockHash: hq.BlockHash, ProposerKey: m.Qc.ProposerKey, Signature: m.Qc.Signature}, HighQc: hq, RcBuildHeight: m.RcBuildHeight}
				c.Fault("byz_propose_justified_by_old_certificate")
				c.Logf("adversary n%d proposes blk=%x justified by the certificate of rh%d/r%d", n.idx, hq.BlockHash[:3], pick.payload.Header.RootHeight, pick.payload.Header.Round)
				a.follow[string(hq.BlockHash)] = true
				a.signAndSend(n, alt, to, "byz-old-certificate")
				return true
			}
		}
	}
	// otherwise: a fresh valid block that ignores every lock, pushed through all phases
	alt := a.cloneProposeWithNewBlock(n, m, true)
	if alt == nil {
		return false
	}
	// bait variant: attach the certificate some correct replica is locked on as HighQc although the
	// proposal carries a DIFFERENT block (the justification does not match the proposal)
	if c.T.Chance(3, 4) {
		for _, hn := range w.honest() {
			if hq := hn.bft.HighQC; hq != nil && hn.chainHeight() == m.Header.Height && hq.Signature != nil {
				alt.HighQc = &lib.QuorumCertificate{Header: hq.Header, Block: hq.Block, BlockHash: hq.BlockHash, Results: hq.Results, ResultsHash: hq.ResultsHash,
					ProposerKey: hq.ProposerKey, Signature: hq.Signature}
				if c.T.Chance(1, 2) && hq.Results != nil {
					// ... and reuse the locked proposal's results, so that only the block differs
					alt.Qc.Results, alt.Qc.ResultsHash = hq.Results, hq.ResultsHash
					if kb, ok := a.blocks[string(alt.Qc.BlockHash)]; ok {
						kb.results = hq.Results
					}
				}
				c.Fault("byz_propose_block_with_mismatched_highqc")
				break
			}
		}
	}
	a.follow[string(alt.Qc.BlockHash)] = true
	c.Fault("byz_propose_fresh_block_ignoring_locks")
	a.signAndSend(n, alt, to, "byz-plan-propose")
	return true
}

// blockedByPlan implements the network side of the plans: COMMIT messages reach exactly one correct
// replica (so a strict subset commits), the others time out into the next round.
func (a *adversary) blockedByPlan(from, to int, m *bft.Message) bool {
	w := a.w
	if a.plan == planChaos || w.faultsOff() || !m.IsProposerMessage() || from == to {
		return false
	}
	if a.plan == planPartialLocks {
		if w.nodes[to].byz || w.nodes[from].byz {
			return false
		}
		switch m.Header.Phase {
		case lib.Phase_PRECOMMIT:
			if w.c.T.Chance(1, 2) {
				w.c.Fault("precommit_message_lost_to_replica")
				return true
			}
		case lib.Phase_COMMIT:
			if w.c.T.Chance(2, 3) {
				w.c.Fault("commit_message_withheld_from_replica")
				return true
			}
		}
		return false
	}
	if a.plan == planStaleHighQC && m.Header.Phase == lib.Phase_PROPOSE && m.Header.Round == 0 && len(a.withheld) == 0 && !w.nodes[from].byz && a.minRound > 0 {
		// make round 0 fail so that a certificate with a round > 0 can be gathered under this root height
		w.c.Fault("round0_proposal_lost")
		return true
	}
	if a.plan == planLockBreak && m.Header.Phase == lib.Phase_PROPOSE && !w.nodes[from].byz && a.partial[m.Header.Height] && w.c.T.Chance(9, 10) {
		// after a strict subset has committed this height, proposals of correct leaders keep getting lost
		// (asynchrony): the locked replicas wait until a Byzantine leader shows up with its bait
		w.c.Fault("proposal_lost_after_partial_commit")
		return true
	}
	if m.Header.Phase != lib.Phase_COMMIT {
		return false
	}
	if w.nodes[to].byz {
		return false
	}
	h := m.Header.Height
	tgt, ok := a.commitTarget[h]
	if !ok {
		hs := w.honest()
		tgt = hs[w.c.T.Intn(len(hs))].idx
		if !w.nodes[from].byz && w.c.T.Chance(2, 3) {
			// nobody but the leader itself receives its COMMIT: one correct replica commits, all others stay locked
			tgt = from
		}
		a.commitTarget[h] = tgt
	}
	if to == tgt {
		return false
	}
	w.c.Fault("commit_message_withheld_from_replica")
	if a.partial == nil {
		a.partial = map[uint64]bool{}
	}
	a.partial[h] = true
	return true
}

func (a *adversary) suppressGossip() bool {
	return a.plan != planChaos && !a.w.faultsOff()
}

// worthReplaying: the stale certificate is only interesting once some correct replica is locked on
// (or has committed) a different block at this height.
func (a *adversary) worthReplaying(ag *voteAgg) bool {
	w := a.w
	h := ag.payload.Header.Height
	if rec, ok := w.firstAt[h]; ok && !bytes.Equal(rec.blockHash, ag.payload.BlockHash) {
		return true
	}
	for _, n := range w.honest() {
		if n.chainHeight() == h && n.bft.HighQC != nil && !bytes.Equal(n.bft.HighQC.BlockHash, ag.payload.BlockHash) {
			return true
		}
	}
	return false
}

// hidesLock: in the partial-locks plan election votes of locked correct replicas (they carry the
// lock) are lost on their way to correct candidates half of the time, so leaders propose unaware of it.
func (a *adversary) hidesLock(from, to int, m *bft.Message) bool {
	w := a.w
	if a.plan != planPartialLocks || w.faultsOff() || from == to || w.nodes[to].byz || w.nodes[from].byz {
		return false
	}
	if m.IsReplicaMessage() && m.Qc.Header.Phase == lib.Phase_ELECTION_VOTE && m.HighQc != nil && w.c.T.Chance(1, 2) {
		w.c.Fault("election_vote_with_lock_lost")
		return true
	}
	return false
}
