package bftsim

import (
	"fmt"
	"sort"
	"strings"
	"time"

	"verif/simkit"

	"github.com/canopy-network/canopy/lib"
)

// RunSafety: C01 (agreement) and C14 (evidence soundness in the consensus engine).
func RunSafety(c *simkit.Ctx) {
	cfg := drawConfig(c)
	if c.Prop == "C14" {
		cfg.byzActive = true
		any := false
		for _, b := range cfg.byz {
			any = any || b
		}
		if !any {
			cfg.byz[c.T.Intn(cfg.n)] = true
			// keep Byzantine power below one third: give the chosen node the smallest stake
			fixByzPower(&cfg)
		}
		cfg.minEvidence = uint64(c.T.Pick(3, 1)) * 12
	}
	w := newWorld(c, cfg)
	defer w.shutdown()
	c.Logf("config plan=%d n=%d stakes=%v byz=%v drop=%d‰ dup=%d‰ lat=%v+%v part=%v rootUpdates=%v(%d‰) phase=%dms heights=%d startH=%d",
		w.adv.plan, cfg.n, cfg.stakes, cfg.byz, cfg.dropPct, cfg.dupPct, cfg.minLat, cfg.jitter, cfg.partitions, cfg.rootUpdates, cfg.rootRate, cfg.phaseMS, cfg.heights, w.startH)
	for _, n := range w.nodes {
		n.start()
	}
	target := w.startH - 1 + uint64(cfg.heights)
	done := func() bool {
		for _, n := range w.honest() {
			if n.height < target {
				return false
			}
		}
		return true
	}
	w.run(time.Duration(cfg.phaseMS)*time.Millisecond*3000, done)
	c.Logf("end: heights=%v events=%d simtime=%v", heights(w), c.Events, w.now())
}

func fixByzPower(cfg *config) {
	var total uint64
	for _, s := range cfg.stakes {
		total += s
	}
	var bp uint64
	for i, b := range cfg.byz {
		if b {
			bp += cfg.stakes[i]
		}
	}
	if bp*3 >= total {
		for i, b := range cfg.byz {
			if b {
				cfg.stakes[i] = 1
			}
		}
		total, bp = 0, 0
		for i, s := range cfg.stakes {
			total += s
			if cfg.byz[i] {
				bp += s
			}
		}
		if bp*3 >= total {
			for i := range cfg.stakes {
				if !cfg.byz[i] {
					cfg.stakes[i] += 10
				}
			}
		}
	}
}

func heights(w *world) []uint64 {
	var hs []uint64
	for _, n := range w.nodes {
		hs = append(hs, n.height)
	}
	return hs
}

// RunLiveness: C15. An adversarial prefix, then global stabilisation: faults stop, messages
// arrive within a small fraction of the smallest phase timeout, timers are honoured on time.
// Oracle: some correct replica commits before any correct replica passes round R+K, where R
// is the highest round of a correct replica at GST.
const livenessK = 20

func RunLiveness(c *simkit.Ctx) {
	cfg := drawConfig(c)
	cfg.heights = 50 // never the stop condition
	cfg.maxEvents = 12000
	prefix := time.Duration(c.T.Intn(40)*cfg.phaseMS) * time.Millisecond
	cfg.gst = prefix + time.Millisecond
	w := newWorld(c, cfg)
	defer w.shutdown()
	c.Logf("config n=%d stakes=%v byz=%v drop=%d‰ dup=%d‰ lat=%v+%v part=%v rootUpdates=%v phase=%dms GST at %v",
		cfg.n, cfg.stakes, cfg.byz, cfg.dropPct, cfg.dupPct, cfg.minLat, cfg.jitter, cfg.partitions, cfg.rootUpdates, cfg.phaseMS, cfg.gst)
	for _, n := range w.nodes {
		n.start()
	}
	w.push(&event{at: cfg.gst, kind: "gst"})
	committedAfterGST := false
	done := func() bool {
		if !w.gstDone {
			return false
		}
		for _, n := range w.honest() {
			if n.height > w.gstHeight {
				committedAfterGST = true
			}
		}
		if committedAfterGST {
			return true
		}
		// phase skew between correct replicas (accumulated before GST through stalls, resets and pacemaker
		// jumps) is constant while phase lengths grow with the round: rounds only count against the budget
		// once a phase is at least twice as long as the worst observed skew
		limit := w.livenessLimit()
		for _, n := range w.honest() {
			c.Check()
			if n.bft.Height == w.gstHeight+1 && n.bft.Round > limit {
				// what kept the correct replicas from voting? (the error they logged most often after GST, if it
				// accounts for at least one rejection per two rounds: it names the history that failed)
				cause, why := w.stuckCause(int(n.bft.Round))
				defer func() { committedAfterGST = true }() // a listed known finding lets Report return: the run ends here
				c.ReportFor("C15", "bounded-liveness", "no-commit-within-round-budget"+cause,
					fmt.Sprintf("GST at %v with highest correct round %d, worst phase skew %v (round limit %d); correct replica n%d reached round %d at %v and no correct replica has committed height %d%s",
						w.cfg.gst, w.gstRound, w.worstSkew, limit, n.idx, n.bft.Round, w.now(), w.gstHeight+1, why))
			}
		}
		return false
	}
	w.run(cfg.gst+time.Duration(cfg.phaseMS)*time.Millisecond*20000, done)
	if w.gstDone && !committedAfterGST {
		// the run ended (event budget or quiescence) without a commit: that is only acceptable if the
		// round budget was not exhausted; complete quiescence without commit is itself a liveness failure
		maxR := uint64(0)
		for _, n := range w.honest() {
			if n.bft.Round > maxR {
				maxR = n.bft.Round
			}
		}
		if w.exit == "quiescent" {
			c.ReportFor("C15", "bounded-liveness", "quiescent-without-commit",
				fmt.Sprintf("after GST (%v) the system went quiescent at %v without a commit (rounds up to %d, heights %v)", w.cfg.gst, w.now(), maxR, heights(w)))
		}
		c.Probe("inconclusive_" + w.exit + "_before_commit")
	} else if committedAfterGST {
		c.Progress++
		c.Probe("commit_after_gst")
	}
	c.Logf("end: heights=%v events=%d simtime=%v gstRound=%d", heights(w), c.Events, w.now(), w.gstRound)
}

func (w *world) atGST() {
	c := w.c
	w.heal()
	w.gstDone = true
	for _, n := range w.honest() {
		if n.bft.Round > w.gstRound {
			w.gstRound = n.bft.Round
		}
		if n.height > w.gstHeight {
			w.gstHeight = n.height
		}
		if n.bft.HighQC != nil {
			c.Probe("replica_locked_at_gst")
		}
		n.lateUntil = 0
	}
	c.Logf("GST: faults stop. highest correct round=%d, highest committed height=%d, heights=%v", w.gstRound, w.gstHeight, heights(w))
	if w.gstRound > 0 {
		c.Probe("gst_with_round_gt_0")
	}
	// eventual synchrony includes block sync: lagging replicas obtain the missing certificates
	w.syncLagging()
}

// syncLagging is the stub of controller.Sync: a replica behind the tip receives the archived
// commit certificates of the most advanced correct replica.
func (w *world) syncLagging() {
	var best *node
	for _, n := range w.honest() {
		if best == nil || n.height > best.height {
			best = n
		}
	}
	if best == nil {
		return
	}
	for _, n := range w.nodes {
		if n.height < best.height {
			rec := best.committed[best.height]
			if rec == nil {
				continue
			}
			bz, _ := lib.Marshal(rec.qc)
			w.push(&event{at: w.now() + 5*time.Millisecond, kind: "cert", to: n.idx, from: best.idx, data: bz, desc: "sync"})
		}
	}
}

// livenessLimit returns the round a correct replica may reach without a commit: R + K, where R is the
// larger of the highest correct round at GST and the first round whose phases are at least twice as
// long as the worst skew between correct replicas' round start times observed since GST.
func (w *world) livenessLimit() uint64 {
	hs := w.honest()
	// update the worst skew from rounds all correct replicas (at the GST height + 1) have started
	var common []uint64
	if len(hs) > 0 && hs[0].roundStart != nil {
		for r := range hs[0].roundStart {
			all := true
			for _, n := range hs {
				if n.rsHeight != w.gstHeight+1 || n.roundStart == nil {
					all = false
					break
				}
				if _, ok := n.roundStart[r]; !ok {
					all = false
					break
				}
			}
			if all && r >= w.gstRound {
				common = append(common, r)
			}
		}
	}
	for _, r := range common {
		lo, hi := hs[0].roundStart[r], hs[0].roundStart[r]
		for _, n := range hs {
			t := n.roundStart[r]
			if t < lo {
				lo = t
			}
			if t > hi {
				hi = t
			}
		}
		if hi-lo > w.worstSkew {
			w.worstSkew = hi - lo
		}
	}
	base := w.gstRound
	phase := time.Duration(w.cfg.phaseMS) * time.Millisecond
	// smallest r with (2r+1)*phase >= 2*skew
	need := uint64(0)
	if w.worstSkew > 0 {
		x := (2*w.worstSkew + phase - 1) / phase // ceil(2*skew/phase)
		if x > 1 {
			need = uint64((x - 1 + 1) / 2)
		}
	}
	if need > base {
		base = need
	}
	return base + livenessK
}

// stuckCause classifies a liveness failure by the error correct replicas logged most after GST.
func (w *world) stuckCause(rounds int) (sigSuffix, detail string) {
	// errors that abort a replica's PROPOSE_VOTE phase (the proposal is not voted on) take precedence over
	// noise such as rejected evidence or duplicate votes
	for _, k := range []string{"invalid root chain build height", "failed safe node predicate", "mismatch evidence and header", "mismatched proposals"} {
		if n := w.errAfterGST[k]; n*2 >= rounds {
			return ":" + strings.ReplaceAll(k, " ", "-"), fmt.Sprintf("; correct replicas logged %q %d times after GST", k, n)
		}
	}
	best, bestN := "", 0
	var ks []string
	for k := range w.errAfterGST {
		ks = append(ks, k)
	}
	sort.Strings(ks)
	for _, k := range ks {
		if n := w.errAfterGST[k]; n > bestN {
			best, bestN = k, n
		}
	}
	if best == "" || bestN*2 < rounds {
		return "", ""
	}
	slug := strings.Map(func(r rune) rune {
		switch {
		case r >= 'a' && r <= 'z', r >= '0' && r <= '9':
			return r
		case r >= 'A' && r <= 'Z':
			return r + 32
		}
		return '-'
	}, best)
	for strings.Contains(slug, "--") {
		slug = strings.ReplaceAll(slug, "--", "-")
	}
	slug = strings.Trim(slug, "-")
	if len(slug) > 60 {
		slug = slug[:60]
	}
	return ":" + slug, fmt.Sprintf("; correct replicas logged %q %d times after GST", best, bestN)
}
