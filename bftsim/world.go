// Package bftsim runs N replicas of the real HotStuff engine (package bft) inside one
// testing/synctest bubble. The simulator owns the clock, the network, the root chain,
// the application (opaque valid blocks) and a Byzantine adversary; one tape decides everything.
package bftsim

import (
	"bytes"
	"container/heap"
	"fmt"
	"sort"
	"strings"
	"sync"
	"testing/synctest"
	"time"

	"verif/simkit"

	"github.com/canopy-network/canopy/bft"
	"github.com/canopy-network/canopy/lib"
	"github.com/canopy-network/canopy/lib/crypto"
	"google.golang.org/protobuf/proto"
)

// ---- events --------------------------------------------------------------------------

type event struct {
	at   time.Duration
	seq  uint64
	kind string // "msg", "cert", "root", "heal", "part"
	to   int
	from int
	data []byte
	desc string
}

type eventHeap []*event

func (h eventHeap) Len() int { return len(h) }
func (h eventHeap) Less(i, j int) bool {
	if h[i].at != h[j].at {
		return h[i].at < h[j].at
	}
	return h[i].seq < h[j].seq
}
func (h eventHeap) Swap(i, j int) { h[i], h[j] = h[j], h[i] }
func (h *eventHeap) Push(x any)   { *h = append(*h, x.(*event)) }
func (h *eventHeap) Pop() any {
	old := *h
	n := len(old)
	x := old[n-1]
	*h = old[:n-1]
	return x
}

// ---- configuration (swarm) -------------------------------------------------------------

type config struct {
	corruptPct  int // per mille of messages that are followed by a corrupted copy (C19 runs)
	n           int
	stakes      []uint64
	byz         []bool
	dropPct     int // per-mille
	dupPct      int
	minLat      time.Duration
	jitter      time.Duration
	bigLatPct   int // per-mille chance of a latency beyond the phase timeout
	partitions  bool
	rootUpdates bool
	rootRate    int // per-mille per opportunity
	timerLate   int // per-mille chance that a fired timer is honoured late
	phaseMS     int
	heights     int
	maxEvents   int
	gst         time.Duration // C15: instant after which faults stop (0 = never)
	byzActive   bool
	minEvidence uint64
}

// ---- nodes ------------------------------------------------------------------------------

type commitRec struct {
	height      uint64
	blockHash   []byte
	resultsHash []byte
	qc          *lib.QuorumCertificate // with block and results
	at          time.Duration
}

type node struct {
	w          *world
	idx        int
	key        crypto.PrivateKeyI
	pub        []byte
	addr       []byte
	byz        bool
	bft        *bft.BFT
	ctl        *simController
	committed  map[uint64]*commitRec
	height     uint64 // last committed height
	root       uint64 // root height known to this node
	mu         sync.Mutex
	fired      bool
	queue      []func()
	stop       chan struct{}
	lateUntil  time.Duration
	resets     int
	log        *simkit.Logger
	roundStart map[uint64]time.Duration // current height: round -> instant the round's ELECTION phase ran
	rsHeight   uint64
}

type world struct {
	c           *simkit.Ctx
	cfg         config
	nodes       []*node
	vals        *lib.ConsensusValidators
	vs          lib.ValidatorSet
	pubIdx      map[string]int
	h           eventHeap
	seq         uint64
	start       time.Time
	wake        chan struct{}
	startH      uint64
	rootBase    uint64
	global      uint64 // highest root height that exists
	groups      []int  // partition group per node (all 0 = no partition)
	held        []*event
	signSeen    map[string]string // sign bytes -> meaning of the first message seen with them
	errAfterGST map[string]int    // error messages logged by correct replicas after GST (liveness diagnosis)
	adv         *adversary
	truth       map[string]map[string]map[string]bool // pub -> view key -> payload hashes signed (replica votes)
	blockSeq    int
	firstAt     map[uint64]*commitRec // first commit by a correct node per height
	gstRound    uint64
	gstDone     bool
	gstHeight   uint64
	worstSkew   time.Duration
	exit        string
	slashed     map[string]bool // address|height already slashed (root-chain double signer index)
}

func (w *world) now() time.Duration { return time.Since(w.start) }

func (w *world) push(e *event) {
	w.seq++
	e.seq = w.seq
	heap.Push(&w.h, e)
}

func (w *world) signalWake() {
	select {
	case w.wake <- struct{}{}:
	default:
	}
}

// ---- setup ---------------------------------------------------------------------------------

func drawConfig(c *simkit.Ctx) config {
	t := c.T
	cfg := config{}
	cfg.n = []int{4, 5, 7, 4, 6}[t.Pick(5, 2, 1, 0, 1)]
	switch t.Pick(3, 2, 2, 1) {
	case 0: // equal
		for i := 0; i < cfg.n; i++ {
			cfg.stakes = append(cfg.stakes, 100)
		}
	case 1: // one whale just under 1/3
		for i := 0; i < cfg.n; i++ {
			cfg.stakes = append(cfg.stakes, 100)
		}
		rest := uint64(100 * (cfg.n - 1))
		cfg.stakes[0] = rest/2 - 1
	case 2: // powers of two
		for i := 0; i < cfg.n; i++ {
			cfg.stakes = append(cfg.stakes, 1<<uint(i))
		}
	default: // small numbers with ties
		for i := 0; i < cfg.n; i++ {
			cfg.stakes = append(cfg.stakes, uint64(1+i%3))
		}
	}
	var total uint64
	for _, s := range cfg.stakes {
		total += s
	}
	cfg.byz = make([]bool, cfg.n)
	cfg.byzActive = t.Chance(3, 4)
	if cfg.byzActive {
		// choose a Byzantine subset with power strictly below one third
		var bp uint64
		order := make([]int, cfg.n)
		for i := range order {
			order[i] = i
		}
		start := t.Intn(cfg.n)
		want := 1 + t.Intn(2)
		for k := 0; k < cfg.n && want > 0; k++ {
			i := order[(start+k)%cfg.n]
			if (bp+cfg.stakes[i])*3 < total {
				cfg.byz[i] = true
				bp += cfg.stakes[i]
				want--
			}
		}
	}
	if cfg.byzActive && t.Chance(1, 2) {
		// one Byzantine validator holding as much as possible below one third (elected leader often)
		for i := range cfg.stakes {
			cfg.stakes[i], cfg.byz[i] = 100, false
		}
		b := t.Intn(cfg.n)
		cfg.byz[b] = true
		cfg.stakes[b] = uint64(50*(cfg.n-1) - 1)
	}
	cfg.dropPct = []int{0, 20, 100, 300}[t.Pick(3, 3, 2, 1)]
	cfg.dupPct = []int{0, 30, 200}[t.Pick(3, 2, 1)]
	cfg.phaseMS = []int{400, 1000, 150, 2500}[t.Pick(4, 2, 1, 1)]
	cfg.minLat = time.Duration(1+t.Intn(20)) * time.Millisecond
	cfg.jitter = time.Duration([]int{5, 50, cfg.phaseMS / 2, cfg.phaseMS * 2}[t.Pick(3, 3, 2, 1)]) * time.Millisecond
	cfg.bigLatPct = []int{0, 20, 100}[t.Pick(3, 2, 1)]
	cfg.partitions = t.Chance(1, 3)
	cfg.rootUpdates = t.Chance(1, 2)
	cfg.rootRate = []int{2, 8, 30}[t.Pick(2, 2, 1)]
	cfg.timerLate = []int{0, 50, 200}[t.Pick(3, 2, 1)]
	cfg.heights = 1 + t.Intn(3)
	cfg.maxEvents = map[string]int{"quick": 2500, "thorough": 6000}[c.Tier]
	if cfg.maxEvents == 0 {
		cfg.maxEvents = 2500
	}
	if c.Prop == "C19" {
		cfg.corruptPct = 40 + t.Intn(200)
	}
	return cfg
}

func newWorld(c *simkit.Ctx, cfg config) *world {
	w := &world{c: c, cfg: cfg, pubIdx: map[string]int{}, wake: make(chan struct{}, 1), start: time.Now(),
		truth: map[string]map[string]map[string]bool{}, firstAt: map[uint64]*commitRec{}, slashed: map[string]bool{}}
	w.startH = uint64(1 + c.T.Intn(3))
	w.rootBase = uint64(10 + c.T.Intn(5))
	w.global = w.rootBase
	w.groups = make([]int, cfg.n)
	w.vals = &lib.ConsensusValidators{}
	keys := make([]crypto.PrivateKeyI, cfg.n)
	for i := 0; i < cfg.n; i++ {
		// deterministic BLS keys from the tape
		kb := c.T.Bytes(32)
		kb[0], kb[31] = kb[0]&0x3F, kb[31]&0x3F|1 // keep the scalar below the group order, non-zero
		kb[15], kb[16] = byte(i+1), byte(0xA5^i)  // distinct keys even on an all-zero (shrunk) tape
		k, err := crypto.BytesToBLS12381PrivateKey(kb)
		if err != nil {
			c.Harnessf("bls key: %v", err)
		}
		keys[i] = k
	}
	// the committee order is by (stake desc, key desc) in production; any fixed order works for the engine
	for i := 0; i < cfg.n; i++ {
		w.vals.ValidatorSet = append(w.vals.ValidatorSet, &lib.ConsensusValidator{PublicKey: keys[i].PublicKey().Bytes(), VotingPower: cfg.stakes[i], NetAddress: fmt.Sprintf("n%d", i)})
	}
	vs, err := lib.NewValidatorSet(w.vals)
	if err != nil {
		c.Harnessf("valset: %v", err)
	}
	w.vs = vs
	w.adv = newAdversary(w)
	if cfg.byzActive {
		w.adv.plan = c.T.Pick(3, 2, 2, 2)
		if w.adv.plan == planStaleHighQC {
			w.cfg.rootUpdates = true
			w.cfg.rootRate = 1
			w.adv.minRound = c.T.Pick(1, 2)
		}
		if w.adv.plan != planChaos && c.T.Chance(2, 3) {
			// a goal-directed attack on an otherwise quiet network: random noise would only break the chain of steps
			w.cfg.dropPct, w.cfg.dupPct, w.cfg.bigLatPct, w.cfg.timerLate, w.cfg.partitions = 0, 0, 0, 0, false
			w.cfg.jitter = 5 * time.Millisecond
			if w.adv.plan == planLockBreak {
				w.cfg.rootUpdates = c.T.Chance(1, 4)
			}
		}
	}
	for i := 0; i < cfg.n; i++ {
		n := &node{w: w, idx: i, key: keys[i], pub: keys[i].PublicKey().Bytes(), addr: keys[i].PublicKey().Address().Bytes(), byz: cfg.byz[i],
			committed: map[uint64]*commitRec{}, height: w.startH - 1, root: w.rootBase, stop: make(chan struct{}), log: &simkit.Logger{Verbose: c.Verbose}}
		if !cfg.byz[i] {
			n.log.OnError = func(msg string) {
				if !w.gstDone {
					return
				}
				if w.errAfterGST == nil {
					w.errAfterGST = map[string]int{}
				}
				// the "Message:" line of a lib.ErrorI, or the text itself
				if j := strings.Index(msg, "Message:"); j >= 0 {
					msg = msg[j+8:]
				}
				msg = strings.TrimSpace(strings.SplitN(msg, "\n", 2)[0])
				if len(msg) > 80 {
					msg = msg[:80]
				}
				w.errAfterGST[msg]++
			}
		}
		w.pubIdx[string(n.pub)] = i
		n.ctl = &simController{n: n}
		bc := lib.DefaultConfig()
		bc.ChainId, bc.NetworkID = 1, 1
		bc.RunVDF = false
		bc.NewHeightTimeoutMs = cfg.phaseMS
		bc.ElectionTimeoutMS, bc.ElectionVoteTimeoutMS = cfg.phaseMS, cfg.phaseMS
		bc.ProposeTimeoutMS, bc.ProposeVoteTimeoutMS = cfg.phaseMS*2, cfg.phaseMS
		bc.PrecommitTimeoutMS, bc.PrecommitVoteTimeoutMS = cfg.phaseMS, cfg.phaseMS
		bc.CommitTimeoutMS = cfg.phaseMS
		bc.RoundInterruptTimeoutMS = cfg.phaseMS
		b, e := bft.New(bc, n.key, n.root, n.height+1, n.ctl, false, nil, n.log)
		if e != nil {
			c.Harnessf("bft.New: %v", e)
		}
		n.bft = b
		// what Start() does before entering its loop
		b.ValidatorSet, _ = n.ctl.LoadCommittee(1, n.root)
		b.CommitteeData, _ = n.ctl.LoadCommitteeData()
		w.nodes = append(w.nodes, n)
	}
	return w
}

// startNode arms the first timer and launches the timer watcher (the only per-node goroutine
// the harness adds; it just turns "timer fired" into a flag the scheduler polls).
func (n *node) start() {
	n.reset(false, 0)
	go func() {
		for {
			select {
			case <-n.bft.PhaseTimer.C:
				n.mu.Lock()
				n.fired = true
				n.mu.Unlock()
				n.w.signalWake()
			case <-n.stop:
				return
			}
		}
	}()
}

// reset mirrors the ResetBFT case of BFT.Start().
func (n *node) reset(rootUpdate bool, process time.Duration) {
	n.ctl.Lock()
	defer n.ctl.Unlock()
	b := n.bft
	if !rootUpdate {
		b.NewHeight(false)
		b.SetWaitTimers(time.Duration(b.Config.NewHeightTimeoutMs)*time.Millisecond, process)
		b.BFTStartTime = time.Now()
	} else {
		b.NewHeight(true)
		b.SetWaitTimers(time.Duration(b.Config.NewHeightTimeoutMs)*time.Millisecond, process)
	}
	n.mu.Lock()
	n.fired = false // a reset that wins the select discards a fired-but-unhandled timer (StopTimer drains it)
	n.mu.Unlock()
	n.resets++
}

func (n *node) enqueue(f func()) {
	n.mu.Lock()
	n.queue = append(n.queue, f)
	n.mu.Unlock()
	n.w.signalWake()
}

func (n *node) chainHeight() uint64 { return n.height + 1 }

// ---- the scheduler loop -------------------------------------------------------------------------

type ready struct {
	kind string // "timer", "queue", "event"
	node int
	ev   *event
}

func (w *world) collectReady() []ready {
	var rs []ready
	now := w.now()
	for _, n := range w.nodes {
		n.mu.Lock()
		if len(n.queue) > 0 {
			rs = append(rs, ready{kind: "queue", node: n.idx})
		}
		if n.fired && now >= n.lateUntil {
			rs = append(rs, ready{kind: "timer", node: n.idx})
		}
		n.mu.Unlock()
	}
	// all heap events due now, in (at, seq) order
	var due []*event
	for w.h.Len() > 0 && w.h[0].at <= now {
		due = append(due, heap.Pop(&w.h).(*event))
	}
	for _, e := range due {
		rs = append(rs, ready{kind: "event", ev: e})
	}
	return rs
}

func (w *world) nextWake() (time.Duration, bool) {
	var next time.Duration
	ok := false
	if w.h.Len() > 0 {
		next, ok = w.h[0].at, true
	}
	for _, n := range w.nodes {
		n.mu.Lock()
		if n.fired && n.lateUntil > w.now() && (!ok || n.lateUntil < next) {
			next, ok = n.lateUntil, true
		}
		n.mu.Unlock()
	}
	return next, ok
}

func (w *world) run(until time.Duration, done func() bool) {
	c := w.c
	idle := 0
	w.exit = "event-budget"
	for c.Events < w.cfg.maxEvents {
		synctest.Wait()
		rs := w.collectReady()
		if len(rs) == 0 {
			if done() {
				w.exit = "done"
				return
			}
			if w.now() > until {
				w.exit = "time-limit"
				return
			}
			// nothing runnable: jump the clock to the next event or timer
			d := 30 * time.Second
			if next, ok := w.nextWake(); ok {
				d = next - w.now()
				if d < 0 {
					d = 0
				}
			}
			tm := time.NewTimer(d)
			select {
			case <-w.wake:
			case <-tm.C:
				if d >= 30*time.Second {
					idle++
					if idle > 20 {
						w.exit = "quiescent"
						return // completely quiescent
					}
				}
			}
			tm.Stop()
			continue
		}
		idle = 0
		// the tape chooses which ready item runs first; the others are put back
		pick := 0
		if len(rs) > 1 {
			pick = c.T.Intn(len(rs))
			c.Probe("schedule_choice_among_ready")
		}
		for i, r := range rs {
			if i != pick && r.kind == "event" {
				heap.Push(&w.h, r.ev) // keeps its (at, seq): it is due, will be collected again
			}
		}
		r := rs[pick]
		c.Step()
		switch r.kind {
		case "queue":
			n := w.nodes[r.node]
			n.mu.Lock()
			f := n.queue[0]
			n.queue = n.queue[1:]
			n.mu.Unlock()
			f()
		case "timer":
			w.fireTimer(w.nodes[r.node])
		case "event":
			w.handleEvent(r.ev)
		}
		w.afterStep()
		if done() {
			w.exit = "done"
			return
		}
	}
}

func (w *world) fireTimer(n *node) {
	c := w.c
	// fault: honour the timer late (stalled node / slow clock)
	if !w.faultsOff() && w.cfg.timerLate > 0 && c.T.Chance(w.cfg.timerLate, 1000) {
		d := time.Duration(1+c.T.Intn(w.cfg.phaseMS*3)) * time.Millisecond
		n.lateUntil = w.now() + d
		c.Fault("timer_honoured_late")
		c.Logf("n%d timer late by %v", n.idx, d)
		return
	}
	n.mu.Lock()
	n.fired = false
	n.mu.Unlock()
	b := n.bft
	if b.Phase == lib.Phase_ELECTION {
		if n.roundStart == nil || n.rsHeight != b.Height {
			n.roundStart, n.rsHeight = map[uint64]time.Duration{}, b.Height
		}
		n.roundStart[b.Round] = w.now()
	}
	before := fmt.Sprintf("h%d r%d rh%d %s", b.Height, b.Round, b.RootHeight, lib.Phase_name[int32(b.Phase)])
	n.ctl.Lock()
	b.HandlePhase()
	n.ctl.Unlock()
	c.Logf("[%v] n%d%s phase %s -> %s r%d lock=%s", w.now().Round(time.Millisecond), n.idx, byzTag(n), before, lib.Phase_name[int32(b.Phase)], b.Round, lockStr(b))
	if b.Round >= 3 {
		c.Probe("round_ge_3")
	}
	if n.byz && w.cfg.byzActive && !w.faultsOff() {
		w.adv.opportunity(n)
	} else if n.byz && w.cfg.byzActive && w.c.Prop == "C15" {
		w.adv.opportunity(n) // Byzantine nodes may keep misbehaving after GST
	}
}

func byzTag(n *node) string {
	if n.byz {
		return "(byz)"
	}
	return ""
}

func lockStr(b *bft.BFT) string {
	if b.HighQC == nil {
		return "-"
	}
	return fmt.Sprintf("%x@rh%d/r%d", b.HighQC.BlockHash[:3], b.HighQC.Header.RootHeight, b.HighQC.Header.Round)
}

func (w *world) faultsOff() bool { return w.cfg.gst > 0 && w.now() >= w.cfg.gst }

// ---- network --------------------------------------------------------------------------------------

// send schedules delivery of a marshalled consensus message subject to the fault configuration.
func (w *world) send(from, to int, data []byte, desc string) {
	c := w.c
	if from == to {
		w.push(&event{at: w.now(), kind: "msg", to: to, from: from, data: data, desc: desc})
		return
	}
	off := w.faultsOff()
	if !off && w.groups[from] != w.groups[to] {
		c.Fault("partition_hold")
		w.held = append(w.held, &event{kind: "msg", to: to, from: from, data: data, desc: desc})
		return
	}
	if !off && w.cfg.dropPct > 0 && c.T.Chance(w.cfg.dropPct, 1000) {
		c.Fault("msg_drop")
		return
	}
	lat := w.cfg.minLat
	if off {
		lat = time.Duration(1+c.T.Intn(5)) * time.Millisecond
	} else {
		if w.cfg.jitter > 0 {
			lat += time.Duration(c.T.Intn(int(w.cfg.jitter/time.Millisecond)+1)) * time.Millisecond
		}
		if w.cfg.bigLatPct > 0 && c.T.Chance(w.cfg.bigLatPct, 1000) {
			lat += time.Duration(c.T.Intn(w.cfg.phaseMS*6)) * time.Millisecond
			c.Fault("msg_delay_beyond_timeout")
		}
	}
	w.push(&event{at: w.now() + lat, kind: "msg", to: to, from: from, data: data, desc: desc})
	if !off && w.cfg.corruptPct > 0 && c.T.Chance(w.cfg.corruptPct, 1000) {
		bad, kind := simkit.MutateBytes(c.T, data)
		c.Fault("msg_corrupted_" + kind)
		w.nestedUnknown(data)
		w.push(&event{at: w.now() + lat + time.Duration(c.T.Intn(w.cfg.phaseMS))*time.Millisecond, kind: "msg", to: to, from: from, data: bad, desc: desc + "(corrupted:" + kind + ")"})
	}
	if !off && w.cfg.dupPct > 0 && c.T.Chance(w.cfg.dupPct, 1000) {
		c.Fault("msg_dup")
		w.push(&event{at: w.now() + lat + time.Duration(c.T.Intn(w.cfg.phaseMS*2))*time.Millisecond, kind: "msg", to: to, from: from, data: data, desc: desc + "(dup)"})
	}
}

func (w *world) handleEvent(e *event) {
	c := w.c
	switch e.kind {
	case "msg":
		n := w.nodes[e.to]
		m := new(bft.Message)
		if err := lib.Unmarshal(e.data, m); err != nil {
			c.Logf("n%d <- n%d undecodable message", e.to, e.from)
			return
		}
		if n.byz {
			w.adv.observe(n, m, e.data)
		}
		w.monitorSignBytes(m)
		err := w.safeHandle(n, m)
		if err != nil {
			c.Logf("n%d <- n%d %s REJECTED: %s", e.to, e.from, e.desc, trunc(err.Error(), 90))
		} else {
			c.Logf("n%d <- n%d %s", e.to, e.from, e.desc)
		}
	case "cert":
		w.deliverCert(w.nodes[e.to], e)
	case "root":
		w.rootUpdate(w.nodes[e.to], binaryU64(e.data))
	case "rootbump":
		if !w.faultsOff() {
			w.global++
			c.Fault("root_height_bump")
			c.Logf("ROOT chain height -> %d", w.global)
			for _, n := range w.nodes {
				d := time.Duration(c.T.Intn(w.cfg.phaseMS)) * time.Millisecond
				w.push(&event{at: w.now() + d, kind: "root", to: n.idx, data: u64Bytes(w.global)})
			}
		}
	case "part":
		w.startPartition()
	case "heal":
		w.heal()
	case "gst":
		w.atGST()
	}
}

func trunc(s string, n int) string {
	if len(s) > n {
		return s[:n]
	}
	return s
}

func binaryU64(b []byte) uint64 {
	var v uint64
	for _, x := range b {
		v = v<<8 | uint64(x)
	}
	return v
}

func u64Bytes(v uint64) []byte {
	b := make([]byte, 8)
	for i := 7; i >= 0; i-- {
		b[i] = byte(v)
		v >>= 8
	}
	return b
}

// safeHandle calls the real HandleMessage; a panic escaping it is a C19 violation.
func (w *world) safeHandle(n *node, m *bft.Message) (err error) {
	defer func() {
		if r := recover(); r != nil {
			if _, ok := r.(simkit.FatalLog); ok {
				panic(r)
			}
			if isSimPanic(r) {
				panic(r)
			}
			w.c.ReportFor("C19", "no-panic", "bft-handle-message-panic", fmt.Sprintf("HandleMessage panicked: %v", r))
			err = fmt.Errorf("panic: %v", r)
		}
	}()
	if e := n.bft.HandleMessage(m); e != nil {
		return e
	}
	return nil
}

func isSimPanic(r any) bool { return simkit.IsSimPanic(r) }

func (w *world) startPartition() {
	c := w.c
	if w.faultsOff() {
		return
	}
	for i := range w.groups {
		w.groups[i] = c.T.Intn(2)
	}
	c.Fault("partition_start")
	c.Logf("PARTITION %v", w.groups)
	w.push(&event{at: w.now() + time.Duration(w.cfg.phaseMS*(2+c.T.Intn(20)))*time.Millisecond, kind: "heal"})
}

func (w *world) heal() {
	c := w.c
	for i := range w.groups {
		w.groups[i] = 0
	}
	c.Logf("HEAL (%d held messages)", len(w.held))
	held := w.held
	w.held = nil
	for _, e := range held {
		if c.T.Chance(1, 4) && !w.faultsOff() {
			c.Fault("msg_drop")
			continue
		}
		e.at = w.now() + time.Duration(1+c.T.Intn(50))*time.Millisecond
		w.push(e)
	}
}

// ---- root chain -----------------------------------------------------------------------------------

// maybeRootBump: a new root-chain block appears; every node learns of it after its own delay.
func (w *world) maybeRootBump() {
	c := w.c
	if !w.cfg.rootUpdates || w.faultsOff() || !c.T.Chance(w.cfg.rootRate, 1000) {
		return
	}
	w.global++
	c.Fault("root_height_bump")
	c.Logf("ROOT chain height -> %d", w.global)
	for _, n := range w.nodes {
		d := time.Duration(c.T.Intn(w.cfg.phaseMS*3)) * time.Millisecond
		w.push(&event{at: w.now() + d, kind: "root", to: n.idx, data: u64Bytes(w.global)})
	}
}

func (w *world) rootUpdate(n *node, h uint64) {
	if h <= n.root {
		return
	}
	locked := n.bft.HighQC != nil
	n.root = h
	n.reset(true, 0)
	w.c.Logf("n%d NEW_COMMITTEE reset: root height %d (locked=%v) -> round 0", n.idx, h, locked)
	if locked {
		w.c.Probe("new_committee_reset_while_locked")
	}
}

// ---- commits ----------------------------------------------------------------------------------------

// acceptCert mirrors controller.HandlePeerBlock's admission checks (stub of the controller) and
// records the commit. Returns false if the certificate is not acceptable for this node now.
func (w *world) acceptCert(n *node, qc *lib.QuorumCertificate, how string) bool {
	c := w.c
	if err := qc.CheckBasic(); err != nil {
		c.Logf("n%d cert rejected (%s): %v", n.idx, how, err)
		return false
	}
	vs, err := n.ctl.LoadCommittee(1, qc.Header.RootHeight)
	if err != nil {
		c.Logf("n%d cert rejected (%s): unknown root height %d", n.idx, how, qc.Header.RootHeight)
		return false
	}
	partial, err := qc.Check(vs, n.ctl.LoadMaxBlockSize(), &lib.View{NetworkId: 1, ChainId: 1}, false)
	if err != nil || partial {
		c.Logf("n%d cert rejected (%s): err=%v partial=%v", n.idx, how, err, partial)
		return false
	}
	if _, err = qc.CheckProposalBasic(n.chainHeight(), 1, 1); err != nil {
		c.Logf("n%d cert rejected (%s): %v", n.idx, how, err)
		return false
	}
	if qc.Header.Phase != lib.Phase_PRECOMMIT_VOTE {
		c.Logf("n%d cert rejected (%s): wrong phase", n.idx, how)
		return false
	}
	rec := &commitRec{height: qc.Header.Height, blockHash: bytes.Clone(qc.BlockHash), resultsHash: bytes.Clone(qc.ResultsHash), qc: qc, at: w.now()}
	n.committed[rec.height] = rec
	n.height = rec.height
	c.Progress++
	c.Logf("n%d%s COMMIT h%d block=%x results=%x via %s (cert rh%d r%d)", n.idx, byzTag(n), rec.height, rec.blockHash[:4], rec.resultsHash[:4], how, qc.Header.RootHeight, qc.Header.Round)
	// slashes in the committed results become part of the root chain's double-signer index
	if qc.Results != nil && qc.Results.SlashRecipients != nil {
		for _, ds := range qc.Results.SlashRecipients.DoubleSigners {
			pk, e := crypto.NewPublicKeyFromBytes(ds.Id)
			if e != nil {
				continue
			}
			for _, h := range ds.Heights {
				w.slashed[fmt.Sprintf("%x|%d", pk.Address().Bytes(), h)] = true
			}
		}
	}
	w.checkAgreement(n, rec)
	n.reset(false, 0)
	return true
}

func (w *world) deliverCert(n *node, e *event) {
	qc := new(lib.QuorumCertificate)
	if err := lib.Unmarshal(e.data, qc); err != nil {
		return
	}
	if qc.Header == nil {
		return
	}
	switch {
	case qc.Header.Height == n.chainHeight():
		w.acceptCert(n, qc, fmt.Sprintf("gossip from n%d", e.from))
	case qc.Header.Height > n.chainHeight():
		// the node is behind: production would sync from the sender's archive; the stub re-delivers
		// the sender's archived certificates in order
		src := w.nodes[e.from]
		for h := n.chainHeight(); h <= qc.Header.Height; h++ {
			rec, ok := src.committed[h]
			if !ok {
				return
			}
			bz, _ := lib.Marshal(rec.qc)
			q2 := new(lib.QuorumCertificate)
			lib.Unmarshal(bz, q2)
			if !w.acceptCert(n, q2, fmt.Sprintf("sync from n%d", e.from)) {
				return
			}
			w.c.Probe("lagging_replica_synced")
		}
	}
}

// gossipCert: what Controller.GossipBlock does (the commit certificate goes to peers).
func (w *world) gossipCert(from *node, qc *lib.QuorumCertificate) {
	bz, err := lib.Marshal(qc)
	if err != nil {
		return
	}
	for _, n := range w.nodes {
		if n.idx == from.idx {
			continue
		}
		c := w.c
		off := w.faultsOff()
		if !off && (w.groups[from.idx] != w.groups[n.idx] || (w.cfg.dropPct > 0 && c.T.Chance(w.cfg.dropPct, 1000))) {
			c.Fault("cert_gossip_lost")
			continue
		}
		lat := w.cfg.minLat + time.Duration(c.T.Intn(int(w.cfg.jitter/time.Millisecond)+1))*time.Millisecond
		if off {
			lat = time.Duration(1+c.T.Intn(5)) * time.Millisecond
		}
		w.push(&event{at: w.now() + lat, kind: "cert", to: n.idx, from: from.idx, data: bz, desc: "cert"})
	}
}

// ---- oracles ----------------------------------------------------------------------------------------------

// checkAgreement is the C01 invariant, evaluated at every commit of a correct replica.
func (w *world) checkAgreement(n *node, rec *commitRec) {
	c := w.c
	c.Check()
	if n.byz {
		return
	}
	// independent re-check: the commit is backed by a +2/3 certificate
	vs := w.vs
	signers, power, err := rec.qc.Signature.GetSigners(vs)
	_ = signers
	if err != nil || power < (2*vs.TotalPower)/3+1 {
		c.ReportFor("C01", "agreement", "commit-without-quorum", fmt.Sprintf("n%d committed h%d with signer power %d of %d (err %v)", n.idx, rec.height, power, vs.TotalPower, err))
	}
	first, ok := w.firstAt[rec.height]
	if !ok {
		w.firstAt[rec.height] = rec
		return
	}
	if !bytes.Equal(first.blockHash, rec.blockHash) || !bytes.Equal(first.resultsHash, rec.resultsHash) {
		c.ReportFor("C01", "agreement", "conflicting-commit",
			fmt.Sprintf("height %d: a correct replica committed block %x/results %x (cert rh%d r%d) but n%d committed block %x/results %x (cert rh%d r%d)",
				rec.height, first.blockHash[:6], first.resultsHash[:6], first.qc.Header.RootHeight, first.qc.Header.Round,
				n.idx, rec.blockHash[:6], rec.resultsHash[:6], rec.qc.Header.RootHeight, rec.qc.Header.Round))
	}
}

func (w *world) afterStep() {
	c := w.c
	// abstract state fingerprint: per node (height, root, round, phase, locked?, resets)
	var parts []any
	for _, n := range w.nodes {
		b := n.bft
		parts = append(parts, n.height, n.root-w.rootBase, b.Round, int(b.Phase), b.HighQC != nil, "|")
	}
	c.Fingerprint(parts...)
	if w.faultsOff() {
		return
	}
	w.maybeRootBump()
	if w.cfg.partitions && c.T.Chance(3, 1000) && allZero(w.groups) {
		w.push(&event{at: w.now(), kind: "part"})
	}
}

func allZero(g []int) bool {
	for _, x := range g {
		if x != 0 {
			return false
		}
	}
	return true
}

func (w *world) shutdown() {
	for _, n := range w.nodes {
		close(n.stop)
		n.bft.PhaseTimer.Stop()
	}
	// let the commit-process helper goroutines (sleeping CommitTimeoutMS on the fake clock) finish
	time.Sleep(time.Duration(w.cfg.phaseMS+10) * time.Millisecond)
	synctest.Wait()
}

func (w *world) honest() []*node {
	var hs []*node
	for _, n := range w.nodes {
		if !n.byz {
			hs = append(hs, n)
		}
	}
	return hs
}

func sortedCopy(xs []string) []string {
	out := append([]string(nil), xs...)
	sort.Strings(out)
	return out
}

// nestedUnknown: the certificates carried by an honest consensus message, re-encoded with ONE unknown
// field inside a sub-message (any depth, elements of repeated fields included): the decoder of the
// types lib.Unmarshal treats as critical (Block, Transaction, QuorumCertificate) has to refuse it (C19).
// Decided at send time with no event pushed and no tape position consumed. (bft.Message and
// lib.BlockMessage envelopes themselves are not in lib.Unmarshal's critical set; see DESIGN A.5.)
func (w *world) nestedUnknown(data []byte) {
	c := w.c
	m := new(bft.Message)
	if proto.Unmarshal(data, m) != nil {
		return
	}
	for _, qc := range []*lib.QuorumCertificate{m.Qc, m.HighQc} {
		if qc == nil {
			continue
		}
		honest, e := lib.Marshal(qc)
		if e != nil {
			continue
		}
		bad, path := simkit.NestedUnknown(honest, new(lib.QuorumCertificate))
		if bad == nil || bytes.Equal(bad, honest) {
			continue
		}
		c.Fault("certificate_unknown_field_nested")
		var err error
		func() {
			defer func() {
				if r := recover(); r != nil {
					if simkit.IsSimPanic(r) {
						panic(r)
					}
					if _, ok := r.(simkit.FatalLog); ok {
						panic(r)
					}
					c.ReportFor("C19", "no-panic", "certificate-decode-panic", fmt.Sprintf("lib.Unmarshal(QuorumCertificate) panicked: %v", r))
				}
			}()
			err = lib.Unmarshal(bad, new(lib.QuorumCertificate))
		}()
		if err == nil {
			c.ReportFor("C19", "decoder-rejects-unknown-fields", "nested-unknown-field-accepted:certificate", fmt.Sprintf("lib.Unmarshal accepted a certificate whose sub-message %s carries unknown field 1997", path))
		}
	}
}
