package bftsim

import (
	"fmt"
	"strings"

	"github.com/canopy-network/canopy/bft"
	"github.com/canopy-network/canopy/lib"
)

// Sign-bytes monitor (C19): every consensus message that reaches a node - honest, Byzantine or
// corrupted in transit - is described field by field in a naive injective text form that covers
// exactly what its signature is meant to bind (everything except the block body, the results body,
// the message's own signature and the unauthenticated transport hints). Two messages whose
// descriptions differ must never produce the same sign bytes.

func lp(b []byte) string { return fmt.Sprintf("%d:%x", len(b), b) }

func viewStr(v *lib.View) string {
	if v == nil {
		return "nil"
	}
	return fmt.Sprintf("net=%d chain=%d h=%d rh=%d r=%d ph=%d", v.NetworkId, v.ChainId, v.Height, v.RootHeight, v.Round, v.Phase)
}

func sigStr(s *lib.AggregateSignature) string {
	if s == nil {
		return "nil"
	}
	return "sig=" + lp(s.Signature) + " bm=" + lp(s.Bitmap)
}

func qcBound(q *lib.QuorumCertificate, withSig bool) string {
	if q == nil {
		return "nil"
	}
	s := "view{" + viewStr(q.Header) + "} bh=" + lp(q.BlockHash) + " rh=" + lp(q.ResultsHash) + " pk=" + lp(q.ProposerKey)
	if withSig {
		s += " " + sigStr(q.Signature)
	}
	return s
}

func qcFull(q *lib.QuorumCertificate) string {
	if q == nil {
		return "nil"
	}
	rb, _ := lib.Marshal(q.Results)
	return qcBound(q, true) + " block=" + lp(q.Block) + " results=" + lp(rb) + fmt.Sprintf(" hasResults=%v", q.Results != nil)
}

func describeMsg(m *bft.Message) (kind, meaning string) {
	switch {
	case m.IsProposerMessage():
		var ev []string
		for _, e := range m.LastDoubleSignEvidence {
			if e == nil {
				ev = append(ev, "nil")
				continue
			}
			ev = append(ev, "{"+qcFull(e.VoteA)+" | "+qcFull(e.VoteB)+"}")
		}
		vrf := "nil"
		if m.Vrf != nil {
			vrf = lp(m.Vrf.PublicKey) + "/" + lp(m.Vrf.Signature)
		}
		return "proposer", "hdr{" + viewStr(m.Header) + "} vrf=" + vrf + " high{" + qcFull(m.HighQc) + "} ev[" + strings.Join(ev, ",") + fmt.Sprintf("]#%d", len(ev)) + fmt.Sprintf(" hasQc=%v qc{", m.Qc != nil) + qcBound(m.Qc, true) + "}"
	case m.IsReplicaMessage():
		q := m.Qc
		if q.Header != nil && q.Header.Phase == lib.Phase_ELECTION_VOTE {
			// an election vote binds the view and the candidate only
			return "replica", "view{" + viewStr(q.Header) + "} pk=" + lp(q.ProposerKey)
		}
		return "replica", qcBound(q, false)
	case m.IsPacemakerMessage():
		return "pacemaker", "view{" + viewStr(m.Qc.Header) + "}"
	}
	return "", ""
}

func (w *world) monitorSignBytes(m *bft.Message) {
	kind, meaning := describeMsg(m)
	if kind == "" {
		return
	}
	sb := m.SignBytes()
	if len(sb) == 0 {
		return
	}
	if w.signSeen == nil {
		w.signSeen = map[string]string{}
	}
	w.c.Check()
	key := string(sb)
	full := kind + " " + meaning
	if first, ok := w.signSeen[key]; ok {
		if first != full {
			w.c.ReportFor("C19", "sign-bytes", "different-messages-share-sign-bytes:"+kind, fmt.Sprintf("two consensus messages with different meaning have identical sign bytes (%d bytes): [%s] vs [%s]", len(sb), trunc(first, 400), trunc(full, 400)))
		}
		return
	}
	w.signSeen[key] = full
}
