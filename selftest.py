"""Determinism self-test: the same VERIF_SEED must give the same abstract event trace in every
process, at every GOMAXPROCS. Usage: ./check selftest [Cxx ...] (env: VERIF_ST_PROCS, VERIF_ST_RUNS,
VERIF_SEED). Exit 0 = no divergence; exit 2 = divergence (a harness problem, never a VIOLATION)."""
import hashlib, json, os, shutil, subprocess, sys, time

ROOT = os.path.dirname(os.path.abspath(__file__))


def main(args, build, ENV, TABLE):
    props = [a for a in args if a in TABLE] or sorted(TABLE)
    procs = int(os.environ.get("VERIF_ST_PROCS", "30"))
    runs = int(os.environ.get("VERIF_ST_RUNS", "6"))
    seed = os.environ.get("VERIF_SEED", "20260922")
    gmps = [1, 4, 16]
    ncpu = os.cpu_count() or 4
    report, bad = {}, 0
    for prop in props:
        cfg = TABLE[prop]
        binpath, _ = build(cfg["engine"])
        binpath = os.path.join(ROOT, binpath)
        work = os.path.join(ROOT, ".work", f"selftest-{prop}")
        shutil.rmtree(work, ignore_errors=True)
        os.makedirs(work)
        t0 = time.time()
        pending = list(range(procs))
        running = []
        rcs = {}
        while pending or running:
            while pending and len(running) < ncpu:
                k = pending.pop(0)
                env = dict(ENV)
                g = gmps[k % len(gmps)]
                env.update({"VERIF_PROP": prop, "VERIF_TIER": "quick", "VERIF_SEED": seed, "VERIF_RUN_FROM": "0",
                            "VERIF_RUN_STRIDE": "1", "VERIF_RUN_COUNT": str(runs), "VERIF_OUT": f"{work}/p{k}.json",
                            "VERIF_BUDGET_S": "3000", "VERIF_REPLAY_DIR": f"{work}/replays{k}", "VERIF_SHRINK_S": "0",
                            "VERIF_KNOWN": os.path.join(ROOT, "known_findings.json"), "VERIF_TRACE_DIR": f"{work}/t{k}",
                            "VERIF_RUN_TIMEOUT_S": str(cfg.get("run_timeout_s", 300)), "GOMAXPROCS": str(g)})
                log = open(f"{work}/p{k}.log", "w")
                p = subprocess.Popen([binpath, "-test.run", "^TestWorker$", "-test.timeout", "2h", "-test.cpu", str(g)],
                                     env=env, stdout=log, stderr=subprocess.STDOUT, cwd=ROOT)
                running.append((k, p, log))
            still = []
            for k, p, log in running:
                if p.poll() is None:
                    still.append((k, p, log))
                else:
                    rcs[k] = p.returncode
                    log.close()
            running = still
            time.sleep(0.05)
        # compare
        diverged = []
        for r in range(runs):
            hashes = {}
            for k in range(procs):
                f = f"{work}/t{k}/{prop}-{seed}-{r}.trace"
                h = hashlib.sha1(open(f, "rb").read()).hexdigest() if os.path.exists(f) else "missing"
                hashes.setdefault(h, []).append(k)
            if len(hashes) != 1 or "missing" in hashes:
                diverged.append({"run": r, "groups": {h: ks for h, ks in hashes.items()}})
        ok = not diverged
        report[prop] = {"engine": cfg["engine"], "processes": procs, "gomaxprocs": gmps, "runs_per_process": runs,
                        "seed": int(seed), "diverged": diverged, "wall_s": round(time.time() - t0, 1)}
        print(f"selftest {prop}: {procs} processes x {runs} runs at GOMAXPROCS {gmps}: " + ("identical traces" if ok else f"DIVERGED {diverged}"))
        sys.stdout.flush()
        if ok:
            shutil.rmtree(work, ignore_errors=True)
        else:
            bad += 1
    os.makedirs(os.path.join(ROOT, "evidence"), exist_ok=True)
    out = os.path.join(ROOT, "evidence", "selftest.json")
    prev = {}
    if os.path.exists(out):
        try:
            prev = json.load(open(out))
        except Exception:
            prev = {}
    prev.update(report)
    json.dump(prev, open(out, "w"), indent=1, sort_keys=True)
    return 2 if bad else 0
