package storesim

import (
	"bytes"
	"crypto/sha256"
	"encoding/binary"
	"encoding/hex"
	"fmt"
	"sort"
	"strings"
	"testing/synctest"

	"verif/simkit"

	"github.com/canopy-network/canopy/lib"
	"github.com/canopy-network/canopy/store"
	"github.com/cockroachdb/pebble/v2"
	"github.com/cockroachdb/pebble/v2/vfs"
)

// ---------------------------------------------------------------------------------
// reference model: a versioned map plus a stack of overlay maps for pending writes
// ---------------------------------------------------------------------------------

type overlay map[string]*[]byte // nil pointer target = delete

type blockRec struct {
	height   uint64
	hash     []byte
	txHashes []string
	qcHash   []byte
	ds       []dsRec
}

type dsRec struct {
	addr   []byte
	height uint64
}

type model struct {
	committed map[uint64]map[string][]byte // version -> full state
	roots     map[uint64][]byte            // version -> root returned by Commit
	blocks    map[uint64]*blockRec         // height -> what was indexed in the commit producing version=height
	version   uint64
	stack     []overlay // stack[0] = main store pending ops; stack[i>0] = nested txns
	pendBlock *blockRec // indexed but not yet committed
}

func newModel() *model {
	return &model{committed: map[uint64]map[string][]byte{0: {}}, roots: map[uint64][]byte{}, blocks: map[uint64]*blockRec{},
		stack: []overlay{{}}}
}

func (m *model) get(k string) []byte {
	for i := len(m.stack) - 1; i >= 0; i-- {
		if v, ok := m.stack[i][k]; ok {
			if v == nil {
				return nil
			}
			return *v
		}
	}
	return m.committed[m.version][k]
}

// view materialises the state visible at overlay depth d (inclusive).
func (m *model) view(depth int) map[string][]byte {
	out := make(map[string][]byte, len(m.committed[m.version]))
	for k, v := range m.committed[m.version] {
		out[k] = v
	}
	for i := 0; i <= depth && i < len(m.stack); i++ {
		for k, v := range m.stack[i] {
			if v == nil {
				delete(out, k)
			} else {
				out[k] = *v
			}
		}
	}
	return out
}

func (m *model) top() overlay { return m.stack[len(m.stack)-1] }

func sortedKeysWithPrefix(st map[string][]byte, prefix string, reverse bool) []string {
	var ks []string
	for k := range st {
		if len(k) >= len(prefix) && k[:len(prefix)] == prefix {
			ks = append(ks, k)
		}
	}
	sort.Strings(ks)
	if reverse {
		for i, j := 0, len(ks)-1; i < j; i, j = i+1, j-1 {
			ks[i], ks[j] = ks[j], ks[i]
		}
	}
	return ks
}

// ---------------------------------------------------------------------------------
// simulated process: pebble on a crashable in-memory disk + the real store
// ---------------------------------------------------------------------------------

type proc struct {
	fs      *vfs.MemFS
	cfs     *crashFS
	db      *pebble.DB
	st      *store.Store
	log     *simkit.Logger
	memSize uint64
	nested  []lib.StoreI // nested txn handles (parallel to model.stack[1:])
}

func (s *sim) open(fs *vfs.MemFS) *proc {
	p := &proc{fs: fs, cfs: newCrashFS(fs), log: &simkit.Logger{}, memSize: s.memSize}
	cfg := lib.DefaultConfig()
	cfg.StoreConfig.LSSCompactionInterval = 0 // background compaction is driven explicitly as an operation
	cfg.StoreConfig.BackupInterval = 0
	cfg.IndexByAccount = true
	cache := pebble.NewCache(8 << 20)
	defer cache.Unref()
	opts := store.VerifPebbleOptions(cfg, p.cfs, p.log, p.memSize, cache)
	db, err := pebble.Open("data", opts)
	if err != nil {
		s.c.ReportFor("C09", "reopen", "pebble-open-failed", fmt.Sprintf("pebble.Open on (crash) image failed: %v", err))
		s.c.Harnessf("pebble open failed: %v", err)
	}
	p.db = db
	st, e := store.NewStoreWithDB(cfg, db, nil, p.log)
	if e != nil {
		s.c.ReportFor("C09", "reopen", "store-open-failed", e.Error())
		s.c.Harnessf("store open: %v", e)
	}
	p.st = st
	store.VerifPurgeBlockCache() // a new process starts with an empty process-wide cache
	return p
}

func (p *proc) cur() lib.StoreI {
	if len(p.nested) > 0 {
		return p.nested[len(p.nested)-1]
	}
	return p.st
}

// ---------------------------------------------------------------------------------
// key / value domain
// ---------------------------------------------------------------------------------

type keyDomain struct {
	keys     [][]byte // full encoded keys
	prefixes [][]byte // iteration prefixes (encoded)
}

// mined keys: raw keys whose SHA-256 shares long prefixes with another mined key or lies
// next to one of the 8 three-bit subtree borders. Computed once per process, deterministically.
var minedKeys [][]byte

func mineKeys() {
	if minedKeys != nil {
		return
	}
	const N = 1 << 18
	type cand struct {
		h uint64
		i uint32
	}
	cs := make([]cand, N)
	mk := func(i uint32) []byte {
		var id [5]byte
		id[0] = 0xAA
		binary.BigEndian.PutUint32(id[1:], i)
		return lib.JoinLenPrefix([]byte{7}, id[:])
	}
	for i := uint32(0); i < N; i++ {
		h := sha256.Sum256(mk(i))
		cs[i] = cand{binary.BigEndian.Uint64(h[:8]), i}
	}
	sort.Slice(cs, func(a, b int) bool { return cs[a].h < cs[b].h })
	seen := map[uint32]bool{}
	add := func(i uint32) {
		if !seen[i] {
			seen[i] = true
			minedKeys = append(minedKeys, mk(i))
		}
	}
	// closest pairs (longest shared hash prefixes)
	type pair struct {
		d    uint64
		a, b uint32
	}
	var ps []pair
	for i := 1; i < N; i++ {
		ps = append(ps, pair{cs[i].h ^ cs[i-1].h, cs[i].i, cs[i-1].i})
	}
	sort.Slice(ps, func(a, b int) bool { return ps[a].d < ps[b].d })
	for i := 0; i < 24; i++ {
		add(ps[i].a)
		add(ps[i].b)
	}
	// keys adjacent to the subtree borders (first and last of each 3-bit range)
	for b := uint64(0); b < 8; b++ {
		lo := b << 61
		idx := sort.Search(N, func(i int) bool { return cs[i].h >= lo })
		for d := 0; d < 2; d++ {
			if idx+d < N {
				add(cs[idx+d].i)
			}
			if idx-1-d >= 0 {
				add(cs[idx-1-d].i)
			}
		}
	}
}

func (s *sim) buildDomain() {
	t := s.c.T
	d := &keyDomain{}
	// id pool with shared byte prefixes, 0xFF runs, varying lengths
	pool := [][]byte{{0}, {1}, {0xFF}, {0xFF, 0xFF}, {0xFF, 0}, {1, 2, 3}, {1, 2, 4}, {1, 2}, {0, 0, 0, 0, 0, 0, 0, 1},
		bytes.Repeat([]byte{0xAB}, 20), append(bytes.Repeat([]byte{0xAB}, 19), 0xAC), bytes.Repeat([]byte{0xFF}, 20),
		bytes.Repeat([]byte{0}, 20), {2}, {3}, {'a'}, {'a', 'b'}, {'b'}}
	nIDs := t.Range(3, len(pool))
	tables := [][]byte{{1}, {2}, {3}}
	for ti, tb := range tables {
		d.prefixes = append(d.prefixes, lib.JoinLenPrefix(tb))
		for i := 0; i < nIDs; i++ {
			id := pool[(i*7+ti*3)%len(pool)]
			if ti == 2 {
				// three-segment table: (table, id, sub)
				for _, sub := range [][]byte{{0}, {9, 9}} {
					d.keys = append(d.keys, lib.JoinLenPrefix(tb, id, sub))
				}
				d.prefixes = append(d.prefixes, lib.JoinLenPrefix(tb, id))
			} else {
				d.keys = append(d.keys, lib.JoinLenPrefix(tb, id))
			}
		}
	}
	// dedupe keys
	seen := map[string]bool{}
	var ks [][]byte
	for _, k := range d.keys {
		if !seen[string(k)] {
			seen[string(k)] = true
			ks = append(ks, k)
		}
	}
	d.keys = ks
	if s.useMined {
		mineKeys()
		d.keys = append(d.keys, minedKeys...)
		d.prefixes = append(d.prefixes, lib.JoinLenPrefix([]byte{7}))
	}
	d.prefixes = append(d.prefixes, nil)
	s.dom = d
}

func (s *sim) pickKey() []byte { return s.dom.keys[s.c.T.Intn(len(s.dom.keys))] }

func (s *sim) newValue() []byte {
	s.valCtr++
	if s.c.T.Chance(1, 12) {
		// the FSM stores index/marker keys with empty values: present key, empty value
		return []byte{}
	}
	n := 1 + s.c.T.Intn(3)*7
	v := make([]byte, 8, 8+n)
	binary.BigEndian.PutUint64(v, s.valCtr)
	for i := 0; i < n; i++ {
		v = append(v, byte(s.valCtr+uint64(i)))
	}
	return v
}

// ---------------------------------------------------------------------------------
// the simulation
// ---------------------------------------------------------------------------------

type sim struct {
	c        *simkit.Ctx
	p        *proc
	m        *model
	dom      *keyDomain
	valCtr   uint64
	memSize  uint64
	useMined bool
	// crash bookkeeping
	durableFloor uint64 // heights <= this must survive any crash
	charge       string
	w            weights
}

type weights struct {
	set, del, get, iter, begin, flushTxn, discardTxn, commit, specRoot, copy_, hist, dbflush, compact, reopen, crash, rollback, proof, reset, pendNested int
}

func weightsFor(prop string) weights {
	w := weights{set: 30, del: 8, get: 8, iter: 6, begin: 3, flushTxn: 3, discardTxn: 2, commit: 8, specRoot: 2, copy_: 1, hist: 4,
		dbflush: 2, compact: 1, reopen: 1, crash: 0, rollback: 0, proof: 0, reset: 1, pendNested: 1}
	switch prop {
	case "C08":
		w.set, w.del, w.commit, w.specRoot, w.get, w.iter, w.hist, w.rollback = 45, 12, 8, 3, 1, 1, 1, 1
	case "C09":
		w.crash, w.commit, w.dbflush, w.compact, w.reopen, w.rollback = 5, 12, 3, 2, 1, 1
		w.get, w.iter, w.hist = 2, 2, 2
	case "C10":
		w.get, w.iter, w.hist, w.copy_, w.rollback, w.begin, w.pendNested = 14, 12, 10, 3, 1, 5, 4
	case "C16":
		w.proof, w.commit = 12, 10
	}
	return w
}

func hx(b []byte) string {
	if len(b) > 12 {
		return hex.EncodeToString(b[:12]) + "…"
	}
	return hex.EncodeToString(b)
}

// Run is the engine entry point.
func Run(c *simkit.Ctx) {
	s := &sim{c: c, m: newModel(), w: weightsFor(c.Prop)}
	t := c.T
	// swarm configuration
	s.memSize = []uint64{64 << 20, 64 << 10, 16 << 10, 256 << 10}[t.Pick(4, 3, 2, 2)]
	s.useMined = c.Prop == "C08" && t.Chance(2, 3) || c.Prop == "C16" && t.Chance(1, 3)
	s.buildDomain()
	nOps := t.Range(20, map[string]int{"quick": 160, "thorough": 400}[c.Tier])
	bigBatch := t.Chance(1, 2) // bias towards batches above the parallel threshold
	c.Logf("config memtable=%d mined=%v keys=%d ops=%d bigBatch=%v", s.memSize, s.useMined, len(s.dom.keys), nOps, bigBatch)
	s.p = s.open(vfs.NewCrashableMem())
	defer func() { s.shutdown() }()
	// a panic escaping the store on a valid operation sequence is a failure of the property under
	// check (the store did not behave like the reference model), not a harness error
	defer func() {
		if r := recover(); r != nil {
			if simkit.IsSimPanic(r) {
				panic(r)
			}
			s.c.Logf("store API panicked: %v", r)
			s.c.Report("no-panic", "store-api-panic", fmt.Sprintf("the store panicked on a valid operation sequence: %v", r))
		}
	}()

	w := s.w
	for i := 0; i < nOps; i++ {
		c.Step()
		depth := len(s.p.nested)
		wt := []int{w.set, w.del, w.get, w.iter, w.begin, w.flushTxn, w.discardTxn, w.commit, w.specRoot, w.copy_, w.hist,
			w.dbflush, w.compact, w.reopen, w.crash, w.rollback, w.proof, w.reset, w.pendNested}
		if depth == 0 {
			wt[5], wt[6] = 0, 0
		} else {
			// only txn-level operations while a nested txn is open
			for _, j := range []int{7, 8, 9, 11, 12, 13, 14, 15, 17} {
				wt[j] = 0
			}
		}
		if depth >= 3 {
			wt[4], wt[18] = 0, 0
		}
		if bigBatch && depth == 0 && len(s.m.stack[0]) < 20 {
			wt[7] /= 4
		}
		switch t.Pick(wt...) {
		case 0:
			s.opSet()
		case 1:
			s.opDelete()
		case 2:
			s.opGet()
		case 3:
			s.opIter()
		case 4:
			s.opBegin()
		case 5:
			s.opFlushTxn()
		case 6:
			s.opDiscardTxn()
		case 7:
			s.opCommit()
		case 8:
			s.opSpecRoot()
		case 9:
			s.opCopy()
		case 10:
			s.opHistorical()
		case 11:
			s.opDBFlush()
		case 12:
			s.opCompact()
		case 13:
			s.opReopen()
		case 14:
			s.opCrash()
		case 15:
			s.opRollback()
		case 16:
			s.opProof()
		case 17:
			s.opReset()
		case 18:
			s.opPendingNested()
		}
		if c.Bubble {
			synctest.Wait()
		}
		c.Fingerprint(s.m.version, len(s.m.stack), len(s.m.top()), len(s.m.committed[s.m.version]), i%4)
	}
	// final sweep: full comparison of the latest and every historical version
	for len(s.p.nested) > 0 {
		s.opDiscardTxn()
	}
	s.checkFullState("final")
	s.checkAllHistory("final")
}

func (s *sim) shutdown() {
	if s.p != nil && s.p.db != nil {
		func() {
			defer func() { recover() }()
			s.p.st.Close()
		}()
		s.p.db = nil
	}
}

// fail reports an oracle failure. While a restart/crash verification is in progress (s.charge set)
// every state mismatch is a failure of the crash-consistency property, whatever oracle saw it.
func (s *sim) fail(prop, oracle, sig, format string, a ...any) {
	if s.charge != "" && prop != s.charge {
		oracle, prop = "reopen-"+oracle, s.charge
	}
	s.c.ReportFor(prop, oracle, sig, fmt.Sprintf(format, a...))
}

// ---- basic operations -------------------------------------------------------------

func (s *sim) opSet() {
	k, v := s.pickKey(), s.newValue()
	if err := s.p.cur().Set(k, v); err != nil {
		s.c.Harnessf("set: %v", err)
	}
	vv := v
	s.m.top()[string(k)] = &vv
	s.c.Logf("set d=%d %s=%s", len(s.p.nested), hx(k), hx(v))
}

func (s *sim) opDelete() {
	k := s.pickKey()
	if err := s.p.cur().Delete(k); err != nil {
		s.c.Harnessf("delete: %v", err)
	}
	s.m.top()[string(k)] = nil
	s.c.Logf("del d=%d %s", len(s.p.nested), hx(k))
}

func (s *sim) opGet() {
	k := s.pickKey()
	got, err := s.p.cur().Get(k)
	if err != nil {
		s.fail("C10", "get", "get-error", "Get(%x) error %v", k, err)
		return
	}
	want := s.m.get(string(k))
	s.c.Check()
	if !bytes.Equal(got, want) {
		s.fail("C10", "get", "get-mismatch", "Get(%x) depth=%d: got %x want %x", k, len(s.p.nested), got, want)
	}
	s.c.Logf("get d=%d %s ok", len(s.p.nested), hx(k))
}

func (s *sim) iterCompare(st lib.RStoreI, view map[string][]byte, prefix []byte, rev bool, prop, oracle, what string) {
	var it lib.IteratorI
	var err lib.ErrorI
	if rev {
		it, err = st.RevIterator(prefix)
	} else {
		it, err = st.Iterator(prefix)
	}
	if err != nil {
		s.fail(prop, oracle, "iter-error", "%s iterator(%x) error: %v", what, prefix, err)
		return
	}
	defer it.Close()
	want := sortedKeysWithPrefix(view, string(prefix), rev)
	i := 0
	dir := "fwd"
	if rev {
		dir = "rev"
	}
	for ; it.Valid(); it.Next() {
		k, v := it.Key(), it.Value()
		if i >= len(want) {
			s.fail(prop, oracle, "iter-extra-"+dir, "%s prefix=%x: extra key %x=%x after %d expected entries", what, prefix, k, v, len(want))
			return
		}
		if string(k) != want[i] {
			s.fail(prop, oracle, "iter-key-"+dir, "%s prefix=%x pos=%d: got key %x want %x", what, prefix, i, k, want[i])
			return
		}
		if !bytes.Equal(v, view[want[i]]) {
			s.fail(prop, oracle, "iter-value-"+dir, "%s prefix=%x key=%x: got value %x want %x", what, prefix, k, v, view[want[i]])
			return
		}
		i++
		if i > len(view)+5 {
			s.fail(prop, oracle, "iter-runaway-"+dir, "%s prefix=%x: iterator does not terminate", what, prefix)
			return
		}
	}
	s.c.Check()
	if i != len(want) {
		s.fail(prop, oracle, "iter-missing-"+dir, "%s prefix=%x: got %d entries want %d (first missing %x)", what, prefix, i, len(want), want[i])
	}
}

func (s *sim) pickPrefix() []byte {
	// either a table / sub-table prefix or an exact key used as prefix
	if s.c.T.Chance(1, 5) {
		return s.pickKey()
	}
	return s.dom.prefixes[s.c.T.Intn(len(s.dom.prefixes))]
}

func (s *sim) opIter() {
	prefix := s.pickPrefix()
	rev := s.c.T.Chance(1, 2)
	s.iterCompare(s.p.cur(), s.m.view(len(s.m.stack)-1), prefix, rev, "C10", "iter", fmt.Sprintf("depth=%d", len(s.p.nested)))
	s.c.Logf("iter d=%d prefix=%s rev=%v ok", len(s.p.nested), hx(prefix), rev)
	if len(s.m.top()) > 0 {
		s.c.Probe("iter_over_pending_writes")
	}
}

func (s *sim) opBegin() {
	s.p.nested = append(s.p.nested, s.p.cur().NewTxn())
	s.m.stack = append(s.m.stack, overlay{})
	s.c.Logf("begin txn depth=%d", len(s.p.nested))
	s.c.Probe(fmt.Sprintf("nested_txn_depth_%d", len(s.p.nested)))
}

func (s *sim) opFlushTxn() {
	n := len(s.p.nested)
	tx := s.p.nested[n-1]
	if err := tx.Flush(); err != nil {
		s.c.Harnessf("txn flush: %v", err)
	}
	tx.Discard()
	s.p.nested = s.p.nested[:n-1]
	top := s.m.stack[len(s.m.stack)-1]
	s.m.stack = s.m.stack[:len(s.m.stack)-1]
	for k, v := range top {
		s.m.top()[k] = v
	}
	s.c.Logf("flush txn -> depth=%d (%d ops)", len(s.p.nested), len(top))
}

func (s *sim) opDiscardTxn() {
	n := len(s.p.nested)
	s.p.nested[n-1].Discard()
	s.p.nested = s.p.nested[:n-1]
	s.m.stack = s.m.stack[:len(s.m.stack)-1]
	s.c.Logf("discard txn -> depth=%d", len(s.p.nested))
}

func (s *sim) opReset() {
	s.p.st.Reset()
	s.m.stack = []overlay{{}}
	s.m.pendBlock = nil
	s.c.Logf("reset (discard pending writes)")
}

// ---- commit -------------------------------------------------------------------------

func (s *sim) synthBlock(h uint64) (*lib.BlockResult, *lib.QuorumCertificate, *blockRec) {
	t := s.c.T
	hash := sha256.Sum256([]byte(fmt.Sprintf("block-%d-%d", h, s.valCtr)))
	rec := &blockRec{height: h, hash: hash[:]}
	hdr := &lib.BlockHeader{Height: h, Hash: hash[:], NetworkId: 1, Time: uint64(h) * 1000, ProposerAddress: bytes.Repeat([]byte{byte(h)}, 20)}
	br := &lib.BlockResult{BlockHeader: hdr}
	ntx := t.Intn(4)
	for i := 0; i < ntx; i++ {
		th := sha256.Sum256([]byte(fmt.Sprintf("tx-%d-%d-%d", h, i, s.valCtr)))
		ths := hex.EncodeToString(th[:])
		br.Transactions = append(br.Transactions, &lib.TxResult{Sender: bytes.Repeat([]byte{1}, 20), Recipient: bytes.Repeat([]byte{byte(2 + i)}, 20),
			MessageType: "send", Height: h, Index: uint64(i), TxHash: ths,
			Transaction: &lib.Transaction{MessageType: "send", CreatedHeight: h, Time: uint64(i), Fee: 1, NetworkId: 1, ChainId: 1}})
		rec.txHashes = append(rec.txHashes, ths)
	}
	hdr.NumTxs = uint64(ntx)
	qc := &lib.QuorumCertificate{Header: &lib.View{Height: h, NetworkId: 1, ChainId: 1, Phase: lib.Phase_PRECOMMIT_VOTE}, BlockHash: hash[:],
		ResultsHash: hash[:], ProposerKey: bytes.Repeat([]byte{3}, 48)}
	qb, _ := lib.Marshal(qc)
	qh := sha256.Sum256(qb)
	rec.qcHash = qh[:]
	if t.Chance(1, 4) {
		rec.ds = append(rec.ds, dsRec{addr: bytes.Repeat([]byte{byte(h)}, 20), height: h})
	}
	return br, qc, rec
}

func (s *sim) opCommit() {
	h := s.m.version + 1 // the block height being committed == the version it produces
	withBlock := s.c.T.Chance(3, 4)
	var rec *blockRec
	if withBlock {
		br, qc, r := s.synthBlock(h)
		rec = r
		if err := s.p.st.IndexQC(qc); err != nil {
			s.c.Harnessf("IndexQC: %v", err)
		}
		if err := s.p.st.IndexBlock(br); err != nil {
			s.c.Harnessf("IndexBlock: %v", err)
		}
		for _, d := range rec.ds {
			if err := s.p.st.IndexDoubleSigner(d.addr, d.height); err != nil {
				s.c.Harnessf("IndexDoubleSigner: %v", err)
			}
		}
	}
	nops := len(s.m.stack[0])
	s.m.pendBlock = rec
	newState := s.m.view(0)
	root, err := s.p.st.Commit()
	if err != nil {
		s.fail("C09", "commit", "commit-error", "Commit at version %d failed without injected fault: %v", h, err)
		return
	}
	s.m.version = h
	s.m.committed[h] = newState
	s.m.roots[h] = root
	if rec != nil {
		s.m.blocks[h] = rec
	}
	s.m.stack = []overlay{{}}
	s.m.pendBlock = nil
	s.c.Progress++
	if nops >= 16 {
		s.c.Probe("parallel_smt_commit")
	} else if nops > 0 {
		s.c.Probe("sequential_smt_commit")
	}
	s.c.Logf("commit -> v%d ops=%d block=%v root=%s", h, nops, withBlock, hx(root))
	// C08: root == canonical commitment of the state
	want := RefRoot(newState, 160)
	s.c.Check()
	if !bytes.Equal(root, want) {
		s.fail("C08", "root", fmt.Sprintf("commit-root-mismatch-%s", pathName(nops)), "version %d (%d ops, %d keys): Commit root %x != canonical %x", h, nops, len(newState), root, want)
	}
	if s.p.st.Version() != h {
		s.fail("C09", "commit", "version-not-advanced", "Version()=%d after commit of %d", s.p.st.Version(), h)
	}
}

func pathName(nops int) string {
	if nops >= 16 {
		return "parallel"
	}
	return "sequential"
}

func (s *sim) opSpecRoot() {
	nops := len(s.m.stack[0])
	root, err := s.p.st.Root()
	if err != nil {
		s.fail("C08", "root", "spec-root-error", "Root() error: %v", err)
		return
	}
	want := RefRoot(s.m.view(0), 160)
	s.c.Check()
	if !bytes.Equal(root, want) {
		s.fail("C08", "root", "spec-root-mismatch-"+pathName(nops), "speculative Root() with %d pending ops: %x != canonical %x", nops, root, want)
	}
	s.c.Probe("speculative_root")
	// what follows a speculative root, as the block pipeline does it: either the work is
	// discarded (Reset) or committed as is. (More writes after Root() and before Commit()
	// is not something the block pipeline does; see DESIGN F9.)
	if s.c.T.Chance(1, 2) {
		s.c.Logf("spec root ok (%d ops) then reset", nops)
		s.opReset()
	} else {
		s.c.Logf("spec root ok (%d ops) then commit", nops)
		s.opCommit()
	}
}

// ---- copies, history --------------------------------------------------------------

func (s *sim) opCopy() {
	cp, err := s.p.st.Copy()
	if err != nil {
		s.c.Harnessf("copy: %v", err)
	}
	defer cp.Discard()
	view := s.m.view(0)
	prefix := s.pickPrefix()
	s.iterCompare(cp, view, prefix, s.c.T.Chance(1, 2), "C10", "copy", "copy")
	// write into the copy: the original must not see it
	k, v := s.pickKey(), s.newValue()
	if e := cp.Set(k, v); e != nil {
		s.c.Harnessf("copy set: %v", e)
	}
	got, _ := s.p.st.Get(k)
	s.c.Check()
	if !bytes.Equal(got, s.m.get(string(k))) {
		s.fail("C10", "copy", "copy-leaks-to-original", "write to copy visible in original: key %x got %x want %x", k, got, s.m.get(string(k)))
	}
	got2, _ := cp.Get(k)
	if !bytes.Equal(got2, v) {
		s.fail("C10", "copy", "copy-own-write", "copy does not see own write key %x got %x want %x", k, got2, v)
	}
	// write into the original: the copy must not see it
	k2, v2 := s.pickKey(), s.newValue()
	before, _ := cp.Get(k2)
	if e := s.p.st.Set(k2, v2); e != nil {
		s.c.Harnessf("set: %v", e)
	}
	vv := v2
	s.m.top()[string(k2)] = &vv
	after, _ := cp.Get(k2)
	if !bytes.Equal(before, after) {
		s.fail("C10", "copy", "original-leaks-to-copy", "write to original visible in copy: key %x before %x after %x", k2, before, after)
	}
	s.c.Logf("copy ok prefix=%s", hx(prefix))
	s.c.Probe("copy")
}

func (s *sim) opHistorical() {
	if s.m.version == 0 {
		return
	}
	v := uint64(s.c.T.Range(1, int(s.m.version)))
	if _, ok := s.m.committed[v]; !ok {
		return
	}
	s.checkVersion(v, false, "hist")
	if v < s.m.version {
		s.c.Probe("historical_read_below_tip")
	}
}

// checkVersion compares a read-only view at version v with the model (sampled or full).
func (s *sim) checkVersion(v uint64, full bool, what string) {
	ro, err := s.p.st.NewReadOnly(v)
	if err != nil {
		s.fail("C10", "history", "readonly-open-error", "NewReadOnly(%d): %v", v, err)
		return
	}
	defer ro.Discard()
	st := s.m.committed[v]
	prop := "C10"
	if full {
		s.iterCompare(ro, st, nil, false, prop, "history", fmt.Sprintf("%s@v%d", what, v))
		s.iterCompare(ro, st, nil, true, prop, "history", fmt.Sprintf("%s@v%d", what, v))
		for _, k := range s.dom.keys {
			got, e := ro.Get(k)
			if e != nil || !bytes.Equal(got, st[string(k)]) {
				s.fail(prop, "history", "hist-get-mismatch", "%s: Get(%x)@v%d got %x (err %v) want %x", what, k, v, got, e, st[string(k)])
			}
		}
		s.c.Check()
		return
	}
	prefix := s.pickPrefix()
	rev := s.c.T.Chance(1, 2)
	s.iterCompare(ro, st, prefix, rev, prop, "history", fmt.Sprintf("%s@v%d", what, v))
	for i := 0; i < 3; i++ {
		k := s.pickKey()
		got, e := ro.Get(k)
		s.c.Check()
		if e != nil || !bytes.Equal(got, st[string(k)]) {
			s.fail(prop, "history", "hist-get-mismatch", "%s: Get(%x)@v%d (tip %d) got %x (err %v) want %x", what, k, v, s.m.version, got, e, st[string(k)])
		}
	}
	s.c.Logf("%s read @v%d prefix=%s rev=%v ok", what, v, hx(prefix), rev)
}

func (s *sim) checkFullState(what string) {
	view := s.m.view(0)
	s.iterCompare(s.p.st, view, nil, false, "C10", "iter", what)
	s.iterCompare(s.p.st, view, nil, true, "C10", "iter", what)
}

func (s *sim) checkAllHistory(what string) {
	for v := uint64(1); v <= s.m.version; v++ {
		if _, ok := s.m.committed[v]; ok {
			s.checkVersion(v, true, what)
			s.checkIndexer(v, what)
		}
	}
}

// checkIndexer compares the block/tx/QC/double-signer indexes for height h.
func (s *sim) checkIndexer(h uint64, what string) {
	rec := s.m.blocks[h]
	store.VerifPurgeBlockCache()
	blk, err := s.p.st.GetBlockByHeight(h)
	s.c.Check()
	if rec == nil {
		if err == nil && blk != nil && blk.BlockHeader != nil && blk.BlockHeader.Height == h && len(blk.BlockHeader.Hash) != 0 {
			s.fail("C09", "index", "phantom-block", "%s: block at height %d present but never committed", what, h)
		}
		return
	}
	if err != nil || blk == nil || blk.BlockHeader == nil || !bytes.Equal(blk.BlockHeader.Hash, rec.hash) {
		s.fail("C09", "index", "block-missing-or-wrong", "%s: GetBlockByHeight(%d) = %v err=%v, want hash %x", what, h, blk, err, rec.hash)
		return
	}
	if len(blk.Transactions) != len(rec.txHashes) {
		s.fail("C09", "index", "block-tx-count", "%s: block %d has %d txs want %d", what, h, len(blk.Transactions), len(rec.txHashes))
		return
	}
	for i, th := range rec.txHashes {
		if blk.Transactions[i].TxHash != th {
			s.fail("C09", "index", "block-tx-order", "%s: block %d tx %d hash %s want %s", what, h, i, blk.Transactions[i].TxHash, th)
		}
		hb, _ := hex.DecodeString(th)
		tx, e := s.p.st.GetTxByHash(hb)
		if e != nil || tx == nil || tx.TxHash != th {
			s.fail("C09", "index", "tx-by-hash", "%s: GetTxByHash(%s) = %v err %v", what, th, tx, e)
		}
	}
	bh, e := s.p.st.GetBlockByHash(rec.hash)
	if e != nil || bh == nil || bh.BlockHeader == nil || bh.BlockHeader.Height != h {
		s.fail("C09", "index", "block-by-hash", "%s: GetBlockByHash(%x) = %v err %v", what, rec.hash, bh, e)
	}
	qc, e := s.p.st.GetQCByHeight(h)
	if e != nil || qc == nil || qc.Header == nil || qc.Header.Height != h || !bytes.Equal(qc.BlockHash, rec.hash) {
		s.fail("C09", "index", "qc-missing-or-wrong", "%s: GetQCByHeight(%d) = %v err %v", what, h, qc, e)
	}
	for _, d := range rec.ds {
		valid, e := s.p.st.IsValidDoubleSigner(d.addr, d.height)
		if e != nil || valid {
			s.fail("C09", "index", "double-signer-missing", "%s: double signer (%x,%d) indexed at height %d not found (valid=%v err=%v)", what, d.addr, d.height, h, valid, e)
		}
	}
}

// ---- maintenance, restart, crash ------------------------------------------------------

func (s *sim) opDBFlush() {
	if err := s.p.db.Flush(); err != nil {
		s.c.Harnessf("db flush: %v", err)
	}
	s.durableFloor = s.m.version
	s.c.Fault("memtable_flush")
	s.c.Logf("db.Flush (memtable -> sst), durable floor v%d", s.durableFloor)
}

func (s *sim) opCompact() {
	if err := s.p.st.CompactAll(s.m.version); err != nil {
		s.c.Harnessf("compact: %v", err)
	}
	s.c.Fault("compaction")
	s.c.Logf("compact all")
}

func (s *sim) opReopen() {
	if err := s.p.st.Close(); err != nil {
		s.c.Harnessf("close: %v", err)
	}
	s.durableFloor = s.m.version
	fs := s.p.fs
	s.p = s.open(fs)
	s.m.stack = []overlay{{}}
	s.m.pendBlock = nil
	s.c.Fault("clean_restart")
	s.c.Logf("clean restart at v%d", s.m.version)
	s.afterRestart("restart", s.m.version, s.m.version)
}

// modelSnap is a shallow copy of the model's committed history (maps of immutable entries).
type modelSnap struct {
	committed map[uint64]map[string][]byte
	roots     map[uint64][]byte
	blocks    map[uint64]*blockRec
	version   uint64
}

func (m *model) snapshot() *modelSnap {
	sn := &modelSnap{committed: map[uint64]map[string][]byte{}, roots: map[uint64][]byte{}, blocks: map[uint64]*blockRec{}, version: m.version}
	for k, v := range m.committed {
		sn.committed[k] = v
	}
	for k, v := range m.roots {
		sn.roots[k] = v
	}
	for k, v := range m.blocks {
		sn.blocks[k] = v
	}
	return sn
}

func (sn *modelSnap) toModel(h uint64) *model {
	m := &model{committed: map[uint64]map[string][]byte{}, roots: map[uint64][]byte{}, blocks: map[uint64]*blockRec{}, version: h, stack: []overlay{{}}}
	for k, v := range sn.committed {
		if k <= h {
			m.committed[k] = v
		}
	}
	for k, v := range sn.roots {
		if k <= h {
			m.roots[k] = v
		}
	}
	for k, v := range sn.blocks {
		if k <= h {
			m.blocks[k] = v
		}
	}
	return m
}

// verifyImage opens a crash image in a temporary process and checks the all-or-nothing contract
// against the model; the main timeline is untouched. pre/post are the model before/after the
// operation during which the image was taken.
func (s *sim) verifyImage(img crashImage, pre, post *modelSnap, opKind string, floor uint64) {
	saveP, saveM := s.p, s.m
	tmp := s.open(img.fs)
	s.p = tmp
	defer func() {
		func() {
			defer func() { recover() }()
			tmp.st.Close()
		}()
		s.p, s.m = saveP, saveM
		store.VerifPurgeBlockCache()
	}()
	h := tmp.st.Version()
	started := post.version
	if pre.version > started {
		started = pre.version
	}
	what := fmt.Sprintf("crash@%s#%d(%s%s)", opKind, img.ordinal, img.kind, tornStr(img))
	s.c.Check()
	if h > started {
		s.fail("C09", "reopen", "height-from-the-future", "%s: reopened at height %d but only heights <= %d were ever committed", what, h, started)
	}
	if opKind == "rollback" && post.version < floor {
		floor = post.version // a rollback deliberately un-does durable heights
	}
	if h < floor {
		s.fail("C09", "reopen", "durable-height-lost", "%s: reopened at height %d below durable floor %d", what, h, floor)
	}
	sn := post
	if _, ok := post.committed[h]; !ok || (opKind == "rollback" && h != post.version) {
		sn = pre
	}
	if _, ok := sn.committed[h]; !ok {
		s.fail("C09", "reopen", "height-never-committed", "%s: reopened at height %d which was never committed", what, h)
		return
	}
	if h < started {
		s.c.Probe("crash_image_behind_tip")
	} else {
		s.c.Probe("crash_image_at_tip")
	}
	s.m = sn.toModel(h)
	s.afterRestart(what, h, started)
	// able to continue applying blocks from h
	k1, k2 := s.pickKeyFixed(int(h)), s.pickKeyFixed(int(h)+1)
	v1 := []byte(fmt.Sprintf("cont-%d", h))
	tmp.st.Set(k1, v1)
	tmp.st.Delete(k2)
	next := s.m.view(0)
	next[string(k1)] = v1
	delete(next, string(k2))
	br, qc, _ := s.synthBlockPlain(h + 1)
	tmp.st.IndexQC(qc)
	tmp.st.IndexBlock(br)
	root, err := tmp.st.Commit()
	s.c.Check()
	if err != nil {
		s.fail("C09", "continue", "cannot-continue-after-crash", "%s: Commit of height %d on the reopened store failed: %v", what, h+1, err)
	} else if want := RefRoot(next, 160); !bytes.Equal(root, want) {
		s.fail("C09", "continue", "wrong-root-after-continue", "%s: continuing from height %d produced root %x, canonical %x", what, h, root, want)
	}
}

func tornStr(img crashImage) string {
	if img.torn >= 0 {
		return fmt.Sprintf(",%dB", img.torn)
	}
	return ""
}

func (s *sim) pickKeyFixed(i int) []byte { return s.dom.keys[i%len(s.dom.keys)] }

func (s *sim) synthBlockPlain(h uint64) (*lib.BlockResult, *lib.QuorumCertificate, *blockRec) {
	hash := sha256.Sum256([]byte(fmt.Sprintf("cont-block-%d", h)))
	hdr := &lib.BlockHeader{Height: h, Hash: hash[:], NetworkId: 1, Time: uint64(h) * 1000, ProposerAddress: bytes.Repeat([]byte{byte(h)}, 20)}
	qc := &lib.QuorumCertificate{Header: &lib.View{Height: h, NetworkId: 1, ChainId: 1, Phase: lib.Phase_PRECOMMIT_VOTE}, BlockHash: hash[:],
		ResultsHash: hash[:], ProposerKey: bytes.Repeat([]byte{3}, 48)}
	return &lib.BlockResult{BlockHeader: hdr}, qc, &blockRec{height: h, hash: hash[:]}
}

// opCrash: crash faults. Either a crash of the whole process at a quiescent instant (the node
// restarts from the image and the history continues from there), or crash images taken at
// file-system operation boundaries (and inside write calls) DURING an operation, each verified
// in a temporary process.
func (s *sim) opCrash() {
	if s.c.T.Chance(1, 3) {
		s.crashQuiescent()
		return
	}
	s.crashDuringOp()
}

func (s *sim) crashQuiescent() {
	pct := []int{0, 100}[s.c.T.Intn(2)]
	started := s.m.version
	clone := s.p.cfs.clone(pct)
	s.c.Fault(fmt.Sprintf("crash_quiescent_unsynced_%d", pct))
	s.c.Logf("CRASH (quiescent) unsynced=%d%% at v%d (durable floor v%d)", pct, s.m.version, s.durableFloor)
	old := s.p
	func() {
		defer func() { recover() }()
		old.st.Close()
	}()
	s.p = s.open(clone)
	h := s.p.st.Version()
	s.c.Check()
	if h > started {
		s.fail("C09", "reopen", "height-from-the-future", "reopened at height %d but only heights <= %d were ever committed", h, started)
	}
	if h < s.durableFloor {
		s.fail("C09", "reopen", "durable-height-lost", "reopened at height %d below durable floor %d (flushed/closed before the crash)", h, s.durableFloor)
	}
	if h < started {
		s.c.Probe("crash_lost_acknowledged_heights")
	}
	for v := h + 1; v <= started; v++ {
		delete(s.m.committed, v)
		delete(s.m.roots, v)
		delete(s.m.blocks, v)
	}
	s.m.version = h
	s.m.stack = []overlay{{}}
	s.m.pendBlock = nil
	s.afterRestart("crash", h, started)
}

func (s *sim) crashDuringOp() {
	t := s.c.T
	kind := []string{"commit", "commit-big", "commit-deletes", "dbflush", "compact", "rollback", "close"}[t.Pick(8, 1, 4, 3, 2, 2, 2)]
	// workload that creates in-flight state for the operation
	switch kind {
	case "commit", "commit-deletes":
		for i := 0; i < 2+t.Intn(4); i++ {
			s.opSet()
		}
		if kind == "commit-deletes" {
			// delete keys that exist at the previous height
			prev := s.m.committed[s.m.version]
			n := 0
			for _, k := range s.dom.keys {
				if _, ok := prev[string(k)]; ok && n < 3 {
					s.p.st.Delete(k)
					s.m.top()[string(k)] = nil
					n++
				}
			}
		}
	case "commit-big":
		// a write set large enough to exceed any internal batch-size threshold (several MB)
		for i := 0; i < 5; i++ {
			k := s.pickKey()
			v := bytes.Repeat([]byte{byte(s.valCtr)}, 1<<20)
			s.valCtr++
			s.p.st.Set(k, v)
			vv := v
			s.m.top()[string(k)] = &vv
		}
		s.c.Probe("multi_megabyte_commit")
	case "rollback":
		if s.m.version < 2 {
			kind = "commit"
			s.opSet()
		}
	}
	pct := []int{100, 0}[t.Intn(2)]
	targets := map[int]int{}
	if t.Chance(1, 3) || s.c.Tier == "thorough" && t.Chance(1, 2) {
		for i := 1; i <= 80; i++ {
			targets[i] = 0
		}
		// plus a few torn writes
		for i := 0; i < 6; i++ {
			targets[1+t.Intn(30)] = 1 + t.Intn(255)
		}
		s.c.Probe("every_fs_op_boundary_enumerated")
	} else {
		for i := 0; i < 4; i++ {
			ord := 1 + t.Intn(24)
			frac := 0
			if t.Chance(1, 2) {
				frac = 1 + t.Intn(255)
			}
			targets[ord] = frac
		}
	}
	pre := s.m.snapshot()
	floor := s.durableFloor
	cfs := s.p.cfs
	if s.c.Bubble {
		// background work of earlier operations (WAL flush, table writes) must not leak into the counted window
		synctest.Wait()
	}
	cfs.arm(targets, pct)
	switch kind {
	case "commit", "commit-big", "commit-deletes":
		s.opCommit()
	case "dbflush":
		s.opDBFlush()
	case "compact":
		s.opCompact()
	case "rollback":
		s.opRollback()
	case "close":
		s.opReopen()
	}
	if s.c.Bubble {
		synctest.Wait()
	}
	nops, kinds, images := cfs.disarm()
	post := s.m.snapshot()
	s.c.Fault("crash_during_" + kind)
	s.c.Logf("CRASH images during %s: %d mutating fs ops %v, %d images (unsynced=%d%%)", kind, nops, kinds, len(images), pct)
	for _, img := range images {
		s.c.Fault("crash_image_" + img.kind)
		if kind == "close" {
			// images taken while closing belong to the old process' disk; the reopen already happened
			s.verifyImage(img, pre, post, kind, floor)
			continue
		}
		s.verifyImage(img, pre, post, kind, floor)
	}
}

// afterRestart checks the all-or-nothing contract on a reopened store.
func (s *sim) afterRestart(what string, h, started uint64) {
	if strings.HasPrefix(what, "crash") {
		prev := s.charge
		s.charge = "C09"
		defer func() { s.charge = prev }()
	}
	// every component reflects exactly height h
	s.checkFullState(what + "-latest")
	if h > 0 {
		s.checkVersion(h, true, what)
	}
	// recorded root == canonical root of the state at h, and the tree is consistent with it:
	// an empty commit on top must reproduce the same root
	if h > 0 {
		root, err := s.p.st.Root()
		s.c.Check()
		if err != nil {
			s.fail("C09", "reopen", "root-error", "%s: Root() after reopen: %v", what, err)
		} else if want := RefRoot(s.m.committed[h], 160); !bytes.Equal(root, want) {
			s.fail("C09", "reopen", "root-mismatch-after-reopen", "%s: Root() at height %d = %x, canonical %x", what, h, root, want)
		}
		s.p.st.Reset()
	}
	s.checkAllHistory(what)
	// nothing from heights above h is visible in any component
	for v := h + 1; v <= started+1; v++ {
		store.VerifPurgeBlockCache()
		if blk, err := s.p.st.GetBlockByHeight(v); err == nil && blk != nil && blk.BlockHeader != nil && len(blk.BlockHeader.Hash) != 0 {
			s.fail("C09", "reopen", "partial-commit-visible", "%s: reopened at %d but block of height %d is visible", what, h, v)
		}
		if qc, err := s.p.st.GetQCByHeight(v); err == nil && qc != nil && qc.Header != nil && qc.Header.Height == v {
			s.fail("C09", "reopen", "partial-commit-visible", "%s: reopened at %d but certificate of height %d is visible", what, h, v)
		}
	}
	s.c.Probe("restart_verified")
}

func (s *sim) opRollback() {
	if s.m.version < 2 {
		return
	}
	target := uint64(s.c.T.Range(1, int(s.m.version)))
	s.p.st.Reset()
	s.m.stack = []overlay{{}}
	if err := s.p.st.Rollback(target); err != nil {
		s.fail("C10", "rollback", "rollback-error", "Rollback(%d) from %d: %v", target, s.m.version, err)
		return
	}
	for v := target + 1; v <= s.m.version; v++ {
		delete(s.m.committed, v)
		delete(s.m.roots, v)
		delete(s.m.blocks, v)
	}
	s.c.Fault("rollback")
	s.c.Logf("rollback v%d -> v%d", s.m.version, target)
	if target < s.m.version {
		s.durableFloor = target // a real rollback applies its batch with Sync
	}
	s.m.version = target
	if s.p.st.Version() != target {
		s.fail("C10", "rollback", "rollback-version", "Version()=%d after Rollback(%d)", s.p.st.Version(), target)
	}
	s.checkFullState("rollback-latest")
	s.checkAllHistory("rollback")
	// the tree must have been rolled back too: the next root is canonical
	root, err := s.p.st.Root()
	s.c.Check()
	if err != nil {
		s.fail("C08", "root", "root-error-after-rollback", "%v", err)
	} else if want := RefRoot(s.m.committed[target], 160); !bytes.Equal(root, want) {
		s.fail("C08", "root", "root-mismatch-after-rollback", "Root() after rollback to %d = %x canonical %x", target, root, want)
	}
	s.p.st.Reset()
}

func (s *sim) opProof() {
	// proofs are also requested while a block is in flight: pending writes and a speculative
	// root already computed (the read-only view must still answer for the committed height)
	if len(s.p.nested) == 0 && len(s.m.stack[0]) > 0 && s.c.T.Chance(1, 3) {
		if _, err := s.p.st.Root(); err == nil {
			s.c.Probe("proof_while_speculative_root_cached")
			s.proofChecks()
			if s.c.T.Chance(1, 2) {
				s.opReset()
			} else {
				s.opCommit()
			}
			return
		}
	}
	s.proofChecks()
}

// opPendingNested exercises the in-memory merged iterator with keys that are themselves the
// iteration prefix of other pending keys. Such key sets never reach the versioned store (whose
// physical layout assumes that no key is a segment-prefix of another, as in the FSM schema):
// they live only in a nested transaction that is discarded afterwards.
func (s *sim) opPendingNested() {
	t := s.c.T
	s.opBegin()
	tb := []byte{4}
	ids := [][]byte{{1}, {1, 2}, {0xFF}, {'a'}}
	var prefixes [][]byte
	for i := 0; i < 2; i++ {
		id := ids[t.Intn(len(ids))]
		k := lib.JoinLenPrefix(tb, id)
		prefixes = append(prefixes, k)
		cands := [][]byte{k, lib.JoinLenPrefix(tb, id, []byte{0}), lib.JoinLenPrefix(tb, id, []byte{7}), lib.JoinLenPrefix(tb, id, []byte{0xFF})}
		for _, ck := range cands {
			switch t.Intn(4) {
			case 0, 1:
				v := s.newValue()
				if err := s.p.cur().Set(ck, v); err != nil {
					s.c.Harnessf("set: %v", err)
				}
				vv := v
				s.m.top()[string(ck)] = &vv
			case 2:
				if err := s.p.cur().Delete(ck); err != nil {
					s.c.Harnessf("delete: %v", err)
				}
				s.m.top()[string(ck)] = nil
			}
		}
	}
	prefixes = append(prefixes, lib.JoinLenPrefix(tb), nil)
	view := s.m.view(len(s.m.stack) - 1)
	for _, p := range prefixes {
		for _, rev := range []bool{false, true} {
			s.iterCompare(s.p.cur(), view, p, rev, "C10", "iter", "pending-nested-keys")
		}
	}
	s.c.Probe("pending_key_equal_to_iteration_prefix")
	s.c.Logf("pending nested-key iteration ok (%d pending)", len(s.m.top()))
	s.opDiscardTxn()
}
