package storesim

import (
	"testing"

	"verif/simkit"
)

func TestWorker(t *testing.T) {
	simkit.WorkerMain(t, "storesim", map[string]simkit.EngineSpec{
		"C08": {Run: Run, Bubble: true},
		"C09": {Run: Run, Bubble: true},
		"C10": {Run: Run, Bubble: true},
		"C16": {Run: Run, Bubble: false},
	})
}
