package storesim

import (
	"bytes"
	"fmt"

	"github.com/canopy-network/canopy/lib"
)

// C16: completeness and soundness of Merkle proofs at the Store API.

func cloneProof(p []*lib.Node) []*lib.Node {
	out := make([]*lib.Node, len(p))
	for i, n := range p {
		if n == nil {
			continue
		}
		out[i] = &lib.Node{Key: bytes.Clone(n.Key), Value: bytes.Clone(n.Value), LeftChildKey: bytes.Clone(n.LeftChildKey),
			RightChildKey: bytes.Clone(n.RightChildKey), Bitmask: n.Bitmask}
	}
	return out
}

// verify wraps VerifyProof, converting a panic into a reportable outcome.
func (s *sim) verify(ro lib.ProveStoreI, k, v []byte, member bool, root []byte, proof []*lib.Node) (ok bool, err error, panicked any) {
	defer func() {
		if r := recover(); r != nil {
			panicked = r
		}
	}()
	okk, e := ro.VerifyProof(k, v, member, root, proof)
	if e != nil {
		return okk, e, nil
	}
	return okk, nil, nil
}

func (s *sim) proofChecks() {
	if s.m.version == 0 {
		return
	}
	t := s.c.T
	// latest or historical version
	v := s.m.version
	if t.Chance(1, 3) {
		v = uint64(t.Range(1, int(s.m.version)))
	}
	st, ok := s.m.committed[v]
	root := s.m.roots[v]
	if !ok || root == nil {
		return
	}
	ro, err := s.p.st.NewReadOnly(v)
	if err != nil {
		s.fail("C16", "complete", "readonly-open-error", "NewReadOnly(%d): %v", v, err)
		return
	}
	defer ro.Discard()
	k := s.pickKey()
	val, present := st[string(k)]
	var proof []*lib.Node
	func() {
		defer func() {
			if r := recover(); r != nil {
				s.fail("C16", "complete", "getproof-panic", "GetProof(%x)@v%d panicked: %v", k, v, r)
			}
		}()
		proof, err = ro.GetProof(k)
	}()
	if err != nil {
		s.fail("C16", "complete", "getproof-error", "GetProof(%x)@v%d (present=%v): %v", k, v, present, err)
		return
	}
	// completeness: the true statement verifies against the root committed for v
	s.c.Check()
	okv, e, pn := s.verify(ro, k, val, present, root, cloneProof(proof))
	where := "latest"
	if v < s.m.version {
		where = "historical"
	}
	kind := "membership"
	if !present {
		kind = "non-membership"
	}
	if pn != nil {
		s.fail("C16", "complete", "verify-panic-honest-"+kind, "VerifyProof panicked on an honest %s proof for %x@v%d: %v", kind, k, v, pn)
	} else if e != nil || !okv {
		s.fail("C16", "complete", fmt.Sprintf("honest-%s-proof-rejected-%s", kind, where),
			"honest %s proof for key %x at version %d (tip %d) does not verify against the root committed for that height (ok=%v err=%v, proof len %d)", kind, k, v, s.m.version, okv, e, len(proof))
	}
	s.c.Probe("proof_" + kind + "_" + where)
	// soundness: the opposite statement must never verify
	if present {
		s.mustReject(ro, "flip-to-non-membership", k, nil, false, root, proof)
		s.mustReject(ro, "wrong-value", k, append(bytes.Clone(val), 1), true, root, proof)
	} else {
		s.mustReject(ro, "flip-to-membership", k, []byte("anything"), true, root, proof)
	}
	// honest proof for key A offered for another key B (both statements about B)
	for i := 0; i < 3; i++ {
		kb := s.pickKey()
		if bytes.Equal(kb, k) {
			continue
		}
		vb, pb := st[string(kb)]
		if pb {
			// B is present: a non-membership claim for B must be rejected, and a membership
			// claim with a wrong value too
			s.mustReject(ro, "other-key-non-membership", kb, nil, false, root, proof)
			s.mustReject(ro, "other-key-wrong-value", kb, append(bytes.Clone(vb), 7), true, root, proof)
		} else {
			s.mustReject(ro, "other-key-membership", kb, []byte("x"), true, root, proof)
		}
	}
	// corrupted proofs: whatever the verdict, it must not be "true" for a false statement and
	// must never panic. A corrupted proof for the TRUE statement may be accepted or rejected.
	for i := 0; i < 4; i++ {
		mp, what := s.mutateProof(proof)
		// false statement
		if present {
			s.mustReject(ro, "corrupt-"+what+"/non-membership-of-present", k, nil, false, root, mp)
		} else {
			s.mustReject(ro, "corrupt-"+what+"/membership-of-absent", k, []byte("zz"), true, root, mp)
		}
		// true statement with corrupt proof: only the no-panic clause applies
		_, _, pn := s.verify(ro, k, val, present, root, cloneProof(mp))
		if pn != nil {
			s.fail("C16", "robust", "verify-panic-"+what, "VerifyProof panicked on a malformed proof (%s): %v", what, pn)
		}
	}
	s.c.Logf("proofs @v%d key=%s present=%v ok", v, hx(k), present)
}

func (s *sim) mustReject(ro lib.ProveStoreI, what string, k, v []byte, member bool, root []byte, proof []*lib.Node) {
	s.c.Check()
	ok, _, pn := s.verify(ro, k, v, member, root, cloneProof(proof))
	s.c.Fault("proof_attack_" + firstPart(what))
	if pn != nil {
		s.fail("C16", "robust", "verify-panic-"+firstPart(what), "VerifyProof panicked (%s, key %x member=%v): %v", what, k, member, pn)
		return
	}
	if ok {
		s.fail("C16", "sound", "false-statement-accepted-"+firstPart(what), "VerifyProof accepted a FALSE statement (%s): key %x member=%v", what, k, member)
	}
}

func firstPart(s string) string {
	for i := 0; i < len(s); i++ {
		if s[i] == '/' {
			return s[:i]
		}
	}
	return s
}

func (s *sim) mutateProof(p []*lib.Node) ([]*lib.Node, string) {
	t := s.c.T
	mp := cloneProof(p)
	if len(mp) == 0 {
		return mp, "empty"
	}
	switch t.Intn(9) {
	case 0:
		return mp[:len(mp)/2], "truncate"
	case 1:
		i := t.Intn(len(mp))
		return append(mp[:i+1], mp[i:]...), "duplicate-node"
	case 2:
		if len(mp) >= 2 {
			i := t.Intn(len(mp) - 1)
			mp[i], mp[i+1] = mp[i+1], mp[i]
		}
		return mp, "swap-nodes"
	case 3:
		i := t.Intn(len(mp))
		mp[i].Bitmask ^= 1
		return mp, "flip-bitmask"
	case 4:
		i := t.Intn(len(mp))
		mp[i].Key = []byte{byte(t.Intn(256))}
		return mp, "one-byte-key"
	case 5:
		i := t.Intn(len(mp))
		mp[i].Key = nil
		return mp, "empty-key"
	case 6:
		i := t.Intn(len(mp))
		if len(mp[i].Key) > 0 {
			j := t.Intn(len(mp[i].Key))
			mp[i].Key[j] ^= 1 << uint(t.Intn(8))
		}
		return mp, "bitflip-key"
	case 7:
		i := t.Intn(len(mp))
		if len(mp[i].Value) > 0 {
			j := t.Intn(len(mp[i].Value))
			mp[i].Value[j] ^= 1 << uint(t.Intn(8))
		}
		return mp, "bitflip-value"
	default:
		i := t.Intn(len(mp))
		mp[i].Value = nil
		return mp, "empty-value"
	}
}
