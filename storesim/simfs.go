package storesim

import (
	"math/rand/v2"
	"os"
	"sync"

	"github.com/cockroachdb/pebble/v2/vfs"
)

// crashFS is the simulated disk seam: a vfs.FS over pebble's crashable MemFS that numbers
// every mutating file-system call and, when armed, takes crash images right before chosen
// calls ("crash at a file-system operation boundary") - and, for a write call, optionally
// after only a prefix of its bytes reached the disk (torn write). Images use pebble's own
// crash model with none (0 %) or all (100 %) of the unsynced data surviving: the two
// deterministic settings (the in-between settings draw random numbers while iterating Go
// maps and do not replay).
type crashFS struct {
	vfs.FS // the underlying MemFS
	mem    *vfs.MemFS

	mu      sync.Mutex
	ops     int
	kinds   map[string]int
	targets map[int]int // ordinal -> torn fraction (0..255; 0 = image before the call)
	pct     int
	images  []crashImage
	armed   bool
}

type crashImage struct {
	ordinal int
	kind    string
	path    string
	torn    int // bytes of the write that reached the disk before the image (-1: not a torn image)
	fs      *vfs.MemFS
}

func newCrashFS(mem *vfs.MemFS) *crashFS {
	return &crashFS{FS: mem, mem: mem, kinds: map[string]int{}}
}

func (c *crashFS) Unwrap() vfs.FS { return c.FS }

func (c *crashFS) clone(pct int) *vfs.MemFS {
	return c.mem.CrashClone(vfs.CrashCloneCfg{UnsyncedDataPercent: pct, RNG: rand.New(rand.NewPCG(1, 2))})
}

// before is called ahead of every mutating call; it returns the torn fraction if an image must
// be taken inside a write (>0), having already taken a plain image when the fraction is 0.
func (c *crashFS) before(kind, path string) (torn int, ord int) {
	c.mu.Lock()
	if !c.armed {
		c.mu.Unlock()
		return -1, 0
	}
	c.ops++
	ord = c.ops
	c.kinds[kind]++
	frac, take := c.targets[ord]
	pct := c.pct
	c.mu.Unlock()
	if !take {
		return -1, ord
	}
	if frac > 0 && (kind == "write" || kind == "writeat") {
		return frac, ord
	}
	img := c.clone(pct)
	c.mu.Lock()
	c.images = append(c.images, crashImage{ordinal: ord, kind: kind, path: path, torn: -1, fs: img})
	c.mu.Unlock()
	return -1, ord
}

func (c *crashFS) tornImage(ord int, kind, path string, n int) {
	img := c.clone(100) // the torn prefix is by definition unsynced data that reached the disk
	c.mu.Lock()
	c.images = append(c.images, crashImage{ordinal: ord, kind: kind + "-torn", path: path, torn: n, fs: img})
	c.mu.Unlock()
}

func (c *crashFS) arm(targets map[int]int, pct int) {
	c.mu.Lock()
	c.ops, c.kinds, c.targets, c.pct, c.images, c.armed = 0, map[string]int{}, targets, pct, nil, true
	c.mu.Unlock()
}

func (c *crashFS) disarm() (int, map[string]int, []crashImage) {
	c.mu.Lock()
	defer c.mu.Unlock()
	c.armed = false
	return c.ops, c.kinds, c.images
}

// ---- vfs.FS overrides (mutating calls) ----------------------------------------------------

func (c *crashFS) Create(name string, cat vfs.DiskWriteCategory) (vfs.File, error) {
	c.before("create", name)
	f, err := c.FS.Create(name, cat)
	if err != nil {
		return nil, err
	}
	return &crashFile{File: f, c: c, path: name}, nil
}

func (c *crashFS) Link(oldname, newname string) error {
	c.before("link", newname)
	return c.FS.Link(oldname, newname)
}

func (c *crashFS) OpenReadWrite(name string, cat vfs.DiskWriteCategory, opts ...vfs.OpenOption) (vfs.File, error) {
	f, err := c.FS.OpenReadWrite(name, cat, opts...)
	if err != nil {
		return nil, err
	}
	return &crashFile{File: f, c: c, path: name}, nil
}

func (c *crashFS) OpenDir(name string) (vfs.File, error) {
	f, err := c.FS.OpenDir(name)
	if err != nil {
		return nil, err
	}
	return &crashFile{File: f, c: c, path: name, dir: true}, nil
}

func (c *crashFS) Remove(name string) error {
	c.before("remove", name)
	return c.FS.Remove(name)
}

func (c *crashFS) RemoveAll(name string) error {
	c.before("removeall", name)
	return c.FS.RemoveAll(name)
}

func (c *crashFS) Rename(oldname, newname string) error {
	c.before("rename", newname)
	return c.FS.Rename(oldname, newname)
}

func (c *crashFS) ReuseForWrite(oldname, newname string, cat vfs.DiskWriteCategory) (vfs.File, error) {
	c.before("reuse", newname)
	f, err := c.FS.ReuseForWrite(oldname, newname, cat)
	if err != nil {
		return nil, err
	}
	return &crashFile{File: f, c: c, path: newname}, nil
}

func (c *crashFS) MkdirAll(dir string, perm os.FileMode) error {
	c.before("mkdir", dir)
	return c.FS.MkdirAll(dir, perm)
}

// ---- file wrapper -------------------------------------------------------------------------------

type crashFile struct {
	vfs.File
	c    *crashFS
	path string
	dir  bool
}

func (f *crashFile) Write(p []byte) (int, error) {
	torn, ord := f.c.before("write", f.path)
	if torn > 0 && len(p) > 1 {
		k := len(p) * torn / 256
		if k < 1 {
			k = 1
		}
		if k >= len(p) {
			k = len(p) - 1
		}
		n, err := f.File.Write(p[:k])
		if err != nil {
			return n, err
		}
		f.c.tornImage(ord, "write", f.path, k)
		m, err := f.File.Write(p[k:])
		return n + m, err
	}
	return f.File.Write(p)
}

func (f *crashFile) WriteAt(p []byte, off int64) (int, error) {
	torn, ord := f.c.before("writeat", f.path)
	if torn > 0 && len(p) > 1 {
		k := len(p) * torn / 256
		if k < 1 {
			k = 1
		}
		if k >= len(p) {
			k = len(p) - 1
		}
		n, err := f.File.WriteAt(p[:k], off)
		if err != nil {
			return n, err
		}
		f.c.tornImage(ord, "writeat", f.path, k)
		m, err := f.File.WriteAt(p[k:], off+int64(k))
		return n + m, err
	}
	return f.File.WriteAt(p, off)
}

func (f *crashFile) Sync() error {
	if f.dir {
		f.c.before("dirsync", f.path)
	} else {
		f.c.before("sync", f.path)
	}
	return f.File.Sync()
}

func (f *crashFile) SyncData() error {
	f.c.before("syncdata", f.path)
	return f.File.SyncData()
}

func (f *crashFile) SyncTo(length int64) (bool, error) {
	f.c.before("syncto", f.path)
	return f.File.SyncTo(length)
}

func (f *crashFile) Preallocate(off, length int64) error {
	f.c.before("prealloc", f.path)
	return f.File.Preallocate(off, length)
}
