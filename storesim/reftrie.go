package storesim

import (
	"bytes"
	"crypto/sha256"
	"math/bits"
	"sort"
)

// Independent reference for the state commitment (C08, C16): the canonical compressed
// binary trie over {hash(key)[:bits] -> hash(value)} plus the two sentinels min=0…0
// (value 0x00*20) and max=1…1 (value 0xFF*20). Written from the documented node-key
// encoding, not from the implementation.

type refLeaf struct {
	bits  []byte // one bit per byte, MSB first, len == keyBits
	value []byte
}

type refNode struct {
	keyEnc      []byte
	value       []byte
	left, right *refNode
	leaf        bool
	nbits       int
}

func bitsOf(b []byte, n int) []byte {
	out := make([]byte, n)
	for i := 0; i < n; i++ {
		out[i] = (b[i/8] >> (7 - uint(i%8))) & 1
	}
	return out
}

// encodeBits implements the documented node-key encoding: full bytes, last byte holds
// the trailing 1..8 bits right-aligned, plus a meta byte = number of leading zero bits
// inside those trailing bits (all-zero trailing bits count one bit as significant).
func encodeBits(b []byte) []byte {
	n := len(b)
	if n == 0 {
		return []byte{0, 0}
	}
	numBytes := (n + 7) / 8
	out := make([]byte, numBytes+1)
	for i := 0; i < numBytes-1; i++ {
		var v byte
		for j := 0; j < 8; j++ {
			v = v<<1 | b[i*8+j]
		}
		out[i] = v
	}
	last := n - 8*(numBytes-1)
	var v byte
	for j := 0; j < last; j++ {
		v = v<<1 | b[8*(numBytes-1)+j]
	}
	out[numBytes-1] = v
	lz := bits.LeadingZeros8(v) - (8 - last)
	if v == 0 {
		lz = last - 1
	}
	out[numBytes] = byte(lz)
	return out
}

func h256(b ...[]byte) []byte {
	h := sha256.New()
	for _, x := range b {
		h.Write(x)
	}
	return h.Sum(nil)
}

func buildRef(leaves []refLeaf, depth int) *refNode {
	if len(leaves) == 1 {
		return &refNode{keyEnc: encodeBits(leaves[0].bits), value: leaves[0].value, leaf: true, nbits: len(leaves[0].bits)}
	}
	// common prefix from bit 0 (all leaves already agree on bits < depth)
	first, lastL := leaves[0].bits, leaves[len(leaves)-1].bits
	d := depth
	for d < len(first) && first[d] == lastL[d] {
		d++
	}
	// sorted input: split where bit d flips 0 -> 1
	idx := sort.Search(len(leaves), func(i int) bool { return leaves[i].bits[d] == 1 })
	l := buildRef(leaves[:idx], d+1)
	r := buildRef(leaves[idx:], d+1)
	n := &refNode{keyEnc: encodeBits(first[:d]), left: l, right: r, nbits: d}
	n.value = h256(l.keyEnc, l.value, r.keyEnc, r.value)
	return n
}

// RefTree builds the canonical tree of a state (raw keys -> raw values).
func RefTree(state map[string][]byte, keyBits int) *refNode {
	leaves := make([]refLeaf, 0, len(state)+2)
	zero, ones := make([]byte, keyBits), make([]byte, keyBits)
	for i := range ones {
		ones[i] = 1
	}
	leaves = append(leaves, refLeaf{bits: zero, value: bytes.Repeat([]byte{0}, 20)})
	leaves = append(leaves, refLeaf{bits: ones, value: bytes.Repeat([]byte{255}, 20)})
	for k, v := range state {
		kh := sha256.Sum256([]byte(k))
		vh := sha256.Sum256(v)
		leaves = append(leaves, refLeaf{bits: bitsOf(kh[:], keyBits), value: vh[:]})
	}
	sort.Slice(leaves, func(i, j int) bool { return bytes.Compare(leaves[i].bits, leaves[j].bits) < 0 })
	return buildRef(leaves, 0)
}

// RefRoot is the canonical commitment of a state.
func RefRoot(state map[string][]byte, keyBits int) []byte {
	return RefTree(state, keyBits).value
}

// countNodes returns the number of nodes (internal + leaves) excluding the root itself.
func (n *refNode) countNodes() int {
	if n.leaf {
		return 1
	}
	return 1 + n.left.countNodes() + n.right.countNodes()
}

// keyBitsOfRaw returns the tree path bits of a raw key.
func keyBitsOfRaw(k []byte, keyBits int) []byte {
	kh := sha256.Sum256(k)
	return bitsOf(kh[:], keyBits)
}
