#!/bin/bash
# usage: verify_seed.sh <worktree> <mutant-dir> <dest-id>
# Confirms, in the scratch worktree: patch applies; touched packages' tests pass with it; the demo fails with
# the patch and passes without. Then stores it under /verif/seeded/<dest-id>/.
wt=$1; m=$2; id=$3
export GOFLAGS=-mod=mod GOPROXY=off GOSUMDB=off GOTOOLCHAIN=local
cd $wt || exit 2
git checkout -q -- . ; git clean -fdq -e _seeded
pkgdir=$(python3 -c "import json;print(json.load(open('$m/meta.json'))['demo_package_dir'])")
pkgs=$(python3 -c "import json;print(' '.join('./'+p.strip('./')+'/' for p in json.load(open('$m/meta.json'))['packages_tested']))")
git apply $m/patch.diff || { echo "APPLY-FAIL"; exit 1; }
# the repo's p2p suite has a load-sensitive test (1 s handshake timeout): retry a failing suite twice
for attempt in 1 2 3; do
  suite=$(go1.26.8 test -vet=off -count=1 -p 2 $pkgs 2>&1 | tail -5); suite_rc=0
  echo "$suite" | grep -q FAIL && suite_rc=1
  [ $suite_rc = 0 ] && break
done
cp $m/demo_test.go $pkgdir/zz_seeded_demo_test.go
demo_run=$(python3 -c "import json;print(json.load(open('$m/meta.json'))['demo_run'])")
demo_with=$(eval "$demo_run" 2>&1 | tail -3); 
git checkout -q -- . 
demo_without=$(eval "$demo_run" 2>&1 | tail -3)
rm -f $pkgdir/zz_seeded_demo_test.go
git clean -fdq -e _seeded
w=FAILS; echo "$demo_with" | grep -q "^ok" && w=PASSES
wo=FAILS; echo "$demo_without" | grep -q "^ok" && wo=PASSES
echo "$demo_with $demo_without" | grep -q "no tests to run" && { w=NOTRUN; wo=NOTRUN; }
echo "$id: suite_with_patch=$([ $suite_rc = 0 ] && echo PASS || echo FAIL) demo_with_patch=$w demo_without_patch=$wo"
if [ $suite_rc = 0 ] && [ $w = FAILS ] && [ $wo = PASSES ]; then
  mkdir -p /verif/seeded/$id && cp $m/patch.diff $m/demo_test.go /verif/seeded/$id/ 
  python3 - <<PY
import json
d=json.load(open('$m/meta.json'))
d['confirmed']={'suite_with_patch':'pass','demo_with_patch':'fails','demo_without_patch':'passes','how':'verify_seed.sh in scratch worktree $wt (go1.26.8 test of packages_tested; demo copied into demo_package_dir)'}
json.dump(d,open('/verif/seeded/$id/meta.json','w'),indent=1)
PY
  echo "$id: KEPT"
else
  echo "$id: NOT KEPT"; echo "$suite"; echo "$demo_with"; echo "$demo_without"
fi
