package p2psim

import (
	"bytes"
	"crypto/cipher"
	"crypto/ed25519"
	"encoding/binary"
	"fmt"
	"sync"
	"time"

	"verif/simkit"

	"github.com/canopy-network/canopy/lib"
	"github.com/canopy-network/canopy/lib/crypto"
	"github.com/canopy-network/canopy/p2p"
	"google.golang.org/protobuf/proto"
)

const frameSize = crypto.EncryptedFrameSize // 1044 bytes on the wire per frame

func identityKey(c *simkit.Ctx, salt int) crypto.PrivateKeyI {
	b := c.T.Bytes(32)
	b[15], b[16] = byte(salt+1), byte(0x77^salt)
	switch c.T.Intn(3) {
	case 0:
		return crypto.BytesToED25519Private(ed25519.NewKeyFromSeed(b))
	case 1:
		b[0], b[31] = b[0]&0x3F, b[31]&0x3F|1
		k, err := crypto.BytesToBLS12381PrivateKey(b)
		if err != nil {
			c.Harnessf("bls: %v", err)
		}
		return k
	default:
		b[0] &= 0x7F
		k, err := crypto.BytesToSECP256K1Private(b)
		if err != nil {
			c.Harnessf("secp: %v", err)
		}
		return k
	}
}

type hsResult struct {
	conn *p2p.EncryptedConn
	err  lib.ErrorI
}

func handshakePair(ca, cb *simConn, metaA, metaB *lib.PeerMeta, ka, kb crypto.PrivateKeyI) (ra, rb hsResult) {
	var wg sync.WaitGroup
	wg.Add(2)
	go func() { defer wg.Done(); ra.conn, ra.err = p2p.NewHandshake(ca, metaA, ka) }()
	go func() { defer wg.Done(); rb.conn, rb.err = p2p.NewHandshake(cb, metaB, kb) }()
	wg.Wait()
	return
}

// RunEncrypted serves C17: data path (clean and with frame faults) and handshake MITM.
func RunEncrypted(c *simkit.Ctx) {
	switch c.T.Pick(3, 5, 4) {
	case 0:
		runDataPath(c, false)
	case 1:
		runDataPath(c, true)
	default:
		runMITM(c)
	}
}

// ---- data path -------------------------------------------------------------------------------------

type wireFrame struct {
	orig   int  // index of the original frame this wire frame carries (-1 = garbage)
	intact bool // unmodified and complete
}

func runDataPath(c *simkit.Ctx, faults bool) {
	t := c.T
	ka, kb := identityKey(c, 0), identityKey(c, 1)
	meta := &lib.PeerMeta{NetworkId: 1, ChainId: 1}
	ca, cb := newLink("A", "B")
	// the attacker records the encrypted frames A sends during the handshake (signature, peer meta)
	var hsFrames [][]byte
	ca.transform = func(b []byte) []byte {
		if len(b) == frameSize {
			hsFrames = append(hsFrames, append([]byte(nil), b...))
		}
		return b
	}
	ra, rb := handshakePair(ca, cb, meta, meta, ka, kb)
	ca.transform = nil
	if ra.err != nil || rb.err != nil {
		c.ReportFor("C17", "handshake", "honest-handshake-failed", fmt.Sprintf("honest endpoints could not complete the handshake: %v / %v", ra.err, rb.err))
		return
	}
	c.Check()
	if !bytes.Equal(ra.conn.Address.PublicKey, kb.PublicKey().Bytes()) || !bytes.Equal(rb.conn.Address.PublicKey, ka.PublicKey().Bytes()) {
		c.ReportFor("C17", "handshake", "wrong-identity-after-honest-handshake", "an endpoint learned a different identity than its peer's")
	}
	// messages
	sizes := []int{0, 1, 1023, 1024, 1025, 2047, 2048, 4096 + t.Intn(3000), 3, 500}
	nMsg := 1 + t.Intn(6)
	var sent []byte
	var frameLens []int // payload bytes carried by each original frame, in order
	var msgs [][]byte
	for i := 0; i < nMsg; i++ {
		sz := sizes[t.Intn(len(sizes))]
		m := make([]byte, sz)
		for j := range m {
			m[j] = byte(i*31 + j)
		}
		msgs = append(msgs, m)
	}
	// the fault plan works on whole frames as the sender emits them (one conn.Write per frame)
	var wire []wireFrame
	var held []byte // a frame held back for a swap
	heldIdx := -1
	var stored [][]byte
	emitted := 0
	plan := map[int]int{} // original frame index -> fault kind
	if faults {
		nf := 1 + t.Intn(2)
		for i := 0; i < nf; i++ {
			plan[t.Intn(12)] = 1 + t.Intn(6)
		}
		if len(hsFrames) > 0 && t.Chance(1, 4) {
			// replay a recorded handshake frame in place of the data frame with the same position in the stream
			plan = map[int]int{t.Intn(len(hsFrames)): 7}
		}
	}
	bitPos := t.Intn(frameSize * 8)
	if t.Chance(1, 3) {
		bitPos = (frameSize-16)*8 + t.Intn(128) // inside the tag
	} else if t.Chance(1, 3) {
		bitPos = t.Intn(32) // inside the length header
	}
	ca.transform = func(b []byte) []byte {
		if len(b) != frameSize {
			return b
		}
		idx := emitted
		emitted++
		stored = append(stored, append([]byte(nil), b...))
		out := []byte{}
		push := func(orig int, intact bool, data []byte) {
			wire = append(wire, wireFrame{orig, intact})
			out = append(out, data...)
		}
		if held != nil {
			// complete a swap: this frame goes first, then the held one
			push(idx, true, b)
			push(heldIdx, true, held)
			held, heldIdx = nil, -1
			return out
		}
		switch plan[idx] {
		case 1: // flip one bit
			fb := append([]byte(nil), b...)
			fb[bitPos/8] ^= 1 << uint(bitPos%8)
			c.Fault("frame_bitflip")
			push(idx, false, fb)
		case 2: // drop
			c.Fault("frame_drop")
		case 3: // duplicate
			c.Fault("frame_duplicate")
			push(idx, true, b)
			push(idx, true, b)
		case 4: // swap with next
			c.Fault("frame_swap_with_next")
			held, heldIdx = append([]byte(nil), b...), idx
		case 5: // truncate mid-frame
			c.Fault("frame_truncate")
			push(-1, false, b[:1+bitPos%(frameSize-1)])
		case 7: // a frame recorded during the handshake takes the place of this data frame
			c.Fault("frame_replaced_by_handshake_frame")
			push(-1, false, hsFrames[idx%len(hsFrames)])
		case 6: // replay an earlier frame in front of this one
			if idx > 0 {
				c.Fault("frame_replay_earlier")
				push(0, true, stored[0])
			}
			push(idx, true, b)
		default:
			push(idx, true, b)
		}
		return out
	}
	for _, m := range msgs {
		// arbitrary write sizes
		rest := m
		for len(rest) > 0 || len(m) == 0 {
			n := len(rest)
			if n > 1 && t.Chance(1, 2) {
				n = 1 + t.Intn(n)
			}
			w, err := ra.conn.Write(rest[:n])
			if err != nil || w != n {
				c.ReportFor("C17", "data-path", "write-failed", fmt.Sprintf("Write of %d bytes returned (%d, %v)", n, w, err))
				return
			}
			// frames emitted for this write: ceil(n/1024) (a zero-length write emits none)
			for k := 0; k < n; k += crypto.MaxDataSize {
				l := n - k
				if l > crypto.MaxDataSize {
					l = crypto.MaxDataSize
				}
				frameLens = append(frameLens, l)
			}
			sent = append(sent, rest[:n]...)
			rest = rest[n:]
			if len(m) == 0 {
				break
			}
		}
	}
	if held != nil { // a swap whose partner never came: the held frame is simply lost
		held = nil
	}
	// the sender is expected to emit ceil(n/1024) frames per Write; if it frames differently the per-frame
	// accounting below does not apply and only the end-to-end oracles are evaluated
	framingOdd := emitted != len(frameLens)
	if framingOdd {
		c.Probe("sender_framing_differs_from_one_frame_per_1024_bytes")
	}
	// how many bytes may legitimately be delivered: frames accepted while wire[i] carries original i intact
	clean := 0
	anomaly := false
	for i, wf := range wire {
		if !framingOdd && i < len(frameLens) && wf.orig == i && wf.intact && !anomaly {
			clean += frameLens[i]
		} else {
			anomaly = true
		}
	}
	if len(wire) < len(frameLens) {
		anomaly = true
	}
	// reader: arbitrary buffer sizes and chunked delivery
	bufSizes := []int{1, 7, 1023, 1024, 1025, 4096}
	cb.in.maxRead = func() int {
		if t.Chance(1, 2) {
			return 0
		}
		return 1 + t.Intn(1500)
	}
	var got []byte
	var readErr error
	for len(got) <= len(sent)+10 {
		buf := make([]byte, bufSizes[t.Intn(len(bufSizes))])
		cb.SetReadDeadline(time.Now().Add(2 * time.Second))
		n, err := rb.conn.Read(buf)
		got = append(got, buf[:n]...)
		if err != nil {
			readErr = err
			break
		}
	}
	c.Check()
	c.Progress++
	c.Logf("data path: msgs=%d bytes=%d frames=%d faults=%v wire=%d delivered=%d err=%v", nMsg, len(sent), len(frameLens), plan, len(wire), len(got), readErr != nil)
	c.Fingerprint(len(frameLens), len(wire), anomaly, len(got) == clean)
	if !bytes.HasPrefix(sent, got) {
		c.ReportFor("C17", "data-path", "delivered-bytes-not-a-prefix-of-sent", fmt.Sprintf("delivered %d bytes that are not a prefix of the %d bytes written (faults %v)", len(got), len(sent), plan))
	}
	if framingOdd {
		if len(plan) == 0 && len(got) != len(sent) {
			c.ReportFor("C17", "data-path", "clean-stream-incomplete", fmt.Sprintf("no fault injected but %d of %d bytes delivered (err %v; the sender emitted %d frames for writes that need %d)", len(got), len(sent), readErr, emitted, len(frameLens)))
		}
		ca.Close()
		cb.Close()
		return
	}
	if len(got) > clean {
		c.ReportFor("C17", "data-path", "data-delivered-from-faulted-frame", fmt.Sprintf("%d bytes delivered but only %d bytes were carried by intact in-order frames before the first wire anomaly (faults %v)", len(got), clean, plan))
	}
	if len(got) < clean {
		c.ReportFor("C17", "data-path", "intact-data-not-delivered", fmt.Sprintf("only %d of the %d bytes carried by intact in-order frames were delivered (err %v, faults %v)", len(got), clean, readErr, plan))
	}
	if !anomaly && len(got) != len(sent) {
		c.ReportFor("C17", "data-path", "clean-stream-incomplete", fmt.Sprintf("no fault injected but %d of %d bytes delivered (err %v)", len(got), len(sent), readErr))
	}
	ca.Close()
	cb.Close()
}

// ---- handshake under an active intermediary --------------------------------------------------------

// session is the attacker's own implementation of the frame layer (so it can speak the protocol with
// substituted keys): 4-byte little-endian length + 1024 data bytes, ChaCha20-Poly1305, counter nonce.
type session struct {
	conn      *simConn
	send, rcv cipher.AEAD
	sn, rn    [crypto.AEADNonceSize]byte
	challenge *[32]byte
}

func incNonce(n *[crypto.AEADNonceSize]byte) {
	ctr := binary.LittleEndian.Uint64(n[4:])
	binary.LittleEndian.PutUint64(n[4:], ctr+1)
}

func (s *session) writeMsg(m proto.Message) error {
	bz, err := lib.Marshal(m)
	if err != nil {
		return err
	}
	data := make([]byte, 4, 4+len(bz))
	binary.BigEndian.PutUint32(data, uint32(len(bz)))
	data = append(data, bz...)
	for len(data) > 0 {
		chunk := data
		if len(chunk) > crypto.MaxDataSize {
			chunk = data[:crypto.MaxDataSize]
		}
		data = data[len(chunk):]
		plain := make([]byte, crypto.FrameSize)
		binary.LittleEndian.PutUint32(plain, uint32(len(chunk)))
		copy(plain[4:], chunk)
		ct := s.send.Seal(nil, s.sn[:], plain, nil)
		incNonce(&s.sn)
		if _, err := s.conn.Write(ct); err != nil {
			return err
		}
	}
	return nil
}

func readFull(c *simConn, n int) ([]byte, error) {
	out := make([]byte, 0, n)
	for len(out) < n {
		buf := make([]byte, n-len(out))
		c.SetReadDeadline(time.Now().Add(3 * time.Second))
		k, err := c.Read(buf)
		out = append(out, buf[:k]...)
		if err != nil {
			return out, err
		}
	}
	return out, nil
}

func (s *session) readMsg(m proto.Message) error {
	var data []byte
	need := -1
	for need < 0 || len(data) < need {
		ct, err := readFull(s.conn, frameSize)
		if err != nil {
			return err
		}
		plain, e := s.rcv.Open(nil, s.rn[:], ct, nil)
		if e != nil {
			return e
		}
		incNonce(&s.rn)
		l := binary.LittleEndian.Uint32(plain)
		if l > crypto.MaxDataSize {
			return fmt.Errorf("bad chunk")
		}
		data = append(data, plain[4:4+l]...)
		if need < 0 && len(data) >= 4 {
			need = 4 + int(binary.BigEndian.Uint32(data))
		}
	}
	return lib.Unmarshal(data[4:need], m)
}

func sendPlain(c *simConn, m proto.Message) error {
	bz, _ := lib.Marshal(m)
	l := make([]byte, 4)
	binary.BigEndian.PutUint32(l, uint32(len(bz)))
	_, err := c.Write(append(l, bz...))
	return err
}

func recvPlain(c *simConn, m proto.Message) error {
	l, err := readFull(c, 4)
	if err != nil {
		return err
	}
	b, err := readFull(c, int(binary.BigEndian.Uint32(l)))
	if err != nil {
		return err
	}
	return lib.Unmarshal(b, m)
}

// low-order / blacklisted points and Edwards encodings of small-order points
var weakPoints = [][]byte{
	make([]byte, 32),
	append([]byte{1}, make([]byte, 31)...),
	mustHex("e0eb7a7c3b41b8ae1656e3faf19fc46ada098deb9c32b1fd866205165f49b800"),
	mustHex("5f9c95bca3508c24b1d0b1559c83ef5b04445cc4581c8e86d8224eddd09f1157"),
	mustHex("ecffffffffffffffffffffffffffffffffffffffffffffffffffffffffffff7f"),
	mustHex("c7176a703d4dd84fba3c0b760d10670f2a2053fa2c39ccc64ec7fd7792ac037a"), // Edwards order-8 point
	mustHex("26e8958fc2b227b045c3f489f2ef98f0d5dfac05d3c63339b13802886d53fc05"), // Edwards order-8 point
	mustHex("0000000000000000000000000000000000000000000000000000000000000080"), // order-4 (x sign flipped)
}

func mustHex(s string) []byte {
	b, err := lib.StringToBytes(s)
	if err != nil {
		panic(err)
	}
	return b
}

func runMITM(c *simkit.Ctx) {
	t := c.T
	ka, kb, km := identityKey(c, 0), identityKey(c, 1), identityKey(c, 2)
	metaA := &lib.PeerMeta{NetworkId: 1, ChainId: 1}
	metaB := &lib.PeerMeta{NetworkId: 1, ChainId: 1}
	strategy := t.Pick(2, 4, 2, 2, 2)
	names := []string{"relay", "substitute-ephemeral-keys", "weak-point", "incompatible-meta", "impersonate-with-replayed-signature"}
	if strategy == 3 {
		if t.Chance(1, 2) {
			metaB.ChainId = 2
		} else {
			metaB.NetworkId = 2
		}
	}
	a2m, m2a := newLink("A", "M(a)")
	m2b, b2m := newLink("M(b)", "B")
	var ra, rb hsResult
	var wg sync.WaitGroup
	wg.Add(2)
	go func() { defer wg.Done(); ra.conn, ra.err = p2p.NewHandshake(a2m, metaA, ka) }()
	go func() { defer wg.Done(); rb.conn, rb.err = p2p.NewHandshake(b2m, metaB, kb) }()
	substituted := false
	claimed := "" // identity the attacker tries to make A accept
	done := make(chan struct{})
	go func() {
		defer close(done)
		switch strategy {
		case 0, 3: // pure relay
			var pw sync.WaitGroup
			pump := func(from, to *simConn) {
				defer pw.Done()
				for {
					buf := make([]byte, 4096)
					from.SetReadDeadline(time.Now().Add(4 * time.Second))
					n, err := from.Read(buf)
					if n > 0 {
						to.Write(buf[:n])
					}
					if err != nil {
						return
					}
				}
			}
			pw.Add(2)
			go pump(m2a, m2b)
			go pump(m2b, m2a)
			pw.Wait()
		case 2: // hand both endpoints a weak point as the peer's ephemeral key
			substituted = true
			pa, pb := new(crypto.ProtoPubKey), new(crypto.ProtoPubKey)
			wp := weakPoints[t.Intn(len(weakPoints))]
			sendPlain(m2a, &crypto.ProtoPubKey{Pubkey: wp})
			sendPlain(m2b, &crypto.ProtoPubKey{Pubkey: wp})
			recvPlain(m2a, pa)
			recvPlain(m2b, pb)
			// if the secret is predictable (all-zero) the attacker could go on; it just relays the rest
			var pw sync.WaitGroup
			pump := func(from, to *simConn) {
				defer pw.Done()
				for {
					buf := make([]byte, 4096)
					from.SetReadDeadline(time.Now().Add(3 * time.Second))
					n, err := from.Read(buf)
					if n > 0 {
						to.Write(buf[:n])
					}
					if err != nil {
						return
					}
				}
			}
			pw.Add(2)
			go pump(m2a, m2b)
			go pump(m2b, m2a)
			pw.Wait()
		default: // 1, 4: classic man in the middle with own ephemeral keys on both sides
			substituted = true
			e1, e2 := ed25519.NewKeyFromSeed(t.Bytes(32)), ed25519.NewKeyFromSeed(t.Bytes(32))
			p1, p2 := e1.Public().(ed25519.PublicKey), e2.Public().(ed25519.PublicKey)
			pa, pb := new(crypto.ProtoPubKey), new(crypto.ProtoPubKey)
			sendPlain(m2a, &crypto.ProtoPubKey{Pubkey: p1})
			sendPlain(m2b, &crypto.ProtoPubKey{Pubkey: p2})
			if recvPlain(m2a, pa) != nil || recvPlain(m2b, pb) != nil {
				return
			}
			mk := func(conn *simConn, priv ed25519.PrivateKey, pub, peer []byte) *session {
				sec, err := crypto.SharedSecret(peer, priv)
				if err != nil {
					return nil
				}
				s, r, ch, err := crypto.HKDFSecretsAndChallenge(sec, pub, peer)
				if err != nil {
					return nil
				}
				return &session{conn: conn, send: s, rcv: r, challenge: ch}
			}
			sa, sb := mk(m2a, e1, p1, pa.Pubkey), mk(m2b, e2, p2, pb.Pubkey)
			if sa == nil || sb == nil {
				return
			}
			sigA, sigB := new(lib.Signature), new(lib.Signature)
			// towards B the attacker authenticates as itself (so that B proceeds and reveals its signature)
			sb.writeMsg(&lib.Signature{PublicKey: km.PublicKey().Bytes(), Signature: km.Sign(sb.challenge[:])})
			if sb.readMsg(sigB) != nil {
				return
			}
			if strategy == 4 {
				// towards A: claim B's identity with B's signature from the other session
				claimed = "B"
				sa.writeMsg(&lib.Signature{PublicKey: sigB.PublicKey, Signature: sigB.Signature})
			} else {
				// towards A: authenticate as M (legitimate: M is then simply a peer called M)
				claimed = "M"
				sa.writeMsg(&lib.Signature{PublicKey: km.PublicKey().Bytes(), Signature: km.Sign(sa.challenge[:])})
			}
			if sa.readMsg(sigA) != nil {
				return
			}
			metaFromB, metaFromA := new(lib.PeerMeta), new(lib.PeerMeta)
			own := (&lib.PeerMeta{NetworkId: 1, ChainId: 1}).Sign(km)
			sb.writeMsg(own)
			sb.readMsg(metaFromB)
			if strategy == 4 {
				sa.writeMsg(metaFromB) // B's signed meta is not session bound: replay it
			} else {
				sa.writeMsg(own)
			}
			sa.readMsg(metaFromA)
		}
	}()
	wg.Wait()
	// let the attacker goroutines finish (their reads time out on the fake clock)
	a2m.Close()
	b2m.Close()
	m2a.Close()
	m2b.Close()
	<-done
	c.Check()
	c.Progress++
	c.Fault("mitm_" + names[strategy])
	okA, okB := ra.err == nil && ra.conn != nil, rb.err == nil && rb.conn != nil
	idA, idB := "", ""
	who := func(pk []byte) string {
		switch {
		case bytes.Equal(pk, ka.PublicKey().Bytes()):
			return "A"
		case bytes.Equal(pk, kb.PublicKey().Bytes()):
			return "B"
		case bytes.Equal(pk, km.PublicKey().Bytes()):
			return "M"
		}
		return "?"
	}
	if okA {
		idA = who(ra.conn.Address.PublicKey)
	}
	if okB {
		idB = who(rb.conn.Address.PublicKey)
	}
	c.Logf("mitm strategy=%s claimed=%s: A ok=%v sees %q; B ok=%v sees %q", names[strategy], claimed, okA, idA, okB, idB)
	c.Fingerprint(strategy, okA, okB, idA, idB)
	switch strategy {
	case 0:
		if !okA || !okB || idA != "B" || idB != "A" {
			c.ReportFor("C17", "handshake", "relayed-honest-handshake-failed", fmt.Sprintf("with a pure relay in between: A ok=%v sees %q (%v), B ok=%v sees %q (%v)", okA, idA, ra.err, okB, idB, rb.err))
		}
	case 3:
		if okA || okB {
			c.ReportFor("C17", "handshake", "incompatible-network-or-chain-accepted", fmt.Sprintf("peers on different network/chain completed a handshake (A ok=%v, B ok=%v)", okA, okB))
		}
	default:
		if substituted && ((okA && idA == "B") || (okB && idB == "A")) {
			c.ReportFor("C17", "handshake", "mitm-accepted-as-honest-peer", fmt.Sprintf("the intermediary substituted keys (%s) yet A sees %q (ok=%v) and B sees %q (ok=%v)", names[strategy], idA, okA, idB, okB))
		}
		if strategy == 2 && (okA || okB) {
			c.ReportFor("C17", "handshake", "weak-point-accepted", fmt.Sprintf("a handshake completed with a low-order ephemeral point (A ok=%v, B ok=%v)", okA, okB))
		}
	}
}
