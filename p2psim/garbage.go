package p2psim

import (
	"crypto/sha256"
	"encoding/binary"
	"fmt"
	"os"
	"strings"
	"sync"
	"testing/synctest"
	"time"

	"verif/simkit"

	"github.com/canopy-network/canopy/lib"
	"github.com/canopy-network/canopy/p2p"
	"google.golang.org/protobuf/types/known/anypb"
)

// RunGarbage (C19): an authenticated peer misbehaves below the multiplexing layer. After an honest
// handshake and some honest messages, peer A writes byte strings of its choice into the encrypted
// connection: bad length prefixes, random envelopes, envelopes with foreign payload types, packets
// for unknown streams, corrupted copies of real envelopes. B must neither panic (recovered or not)
// and every goroutine of B must come to rest (the bubble ends only when all are durably blocked or done).
func RunGarbage(c *simkit.Ctx) {
	t := c.T
	ka, kb := identityKey(c, 0), identityKey(c, 1)
	dirA, _ := os.MkdirTemp("", "verif-p2p-")
	dirB, _ := os.MkdirTemp("", "verif-p2p-")
	defer os.RemoveAll(dirA)
	defer os.RemoveAll(dirB)
	cfgA, cfgB := lib.DefaultConfig(), lib.DefaultConfig()
	cfgA.DataDirPath, cfgB.DataDirPath = dirA, dirB
	cfgA.ChainId, cfgA.NetworkID, cfgB.ChainId, cfgB.NetworkID = 1, 1, 1, 1
	var panics []string
	var pmu sync.Mutex
	logB := &simkit.Logger{OnError: func(m string) {
		if strings.Contains(m, "panic recovered") {
			pmu.Lock()
			panics = append(panics, m)
			pmu.Unlock()
		}
	}}
	pA := p2p.New(ka, 10, nil, cfgA, &simkit.Logger{})
	pB := p2p.New(kb, 10, nil, cfgB, logB)
	ca, cb := newLink("A", "B")
	var mcA, mcB *p2p.MultiConn
	var eA, eB lib.ErrorI
	var wg sync.WaitGroup
	wg.Add(2)
	go func() {
		defer wg.Done()
		mcA, eA = pA.NewConnection(ca, &lib.PeerInfo{Address: &lib.PeerAddress{PublicKey: kb.PublicKey().Bytes(), NetAddress: "B"}, IsOutbound: true})
	}()
	go func() {
		defer wg.Done()
		mcB, eB = pB.NewConnection(cb, &lib.PeerInfo{Address: &lib.PeerAddress{PublicKey: ka.PublicKey().Bytes(), NetAddress: "A"}})
	}()
	wg.Wait()
	if eA != nil || eB != nil {
		c.ReportFor("C17", "handshake", "honest-handshake-failed", fmt.Sprintf("NewConnection failed: %v / %v", eA, eB))
		return
	}
	defer func() {
		mcA.Stop()
		mcB.Stop()
		time.Sleep(5 * time.Second)
		synctest.Wait()
	}()
	// honest traffic first
	sent := map[[32]byte]bool{}
	topics := []lib.Topic{lib.Topic_CONSENSUS, lib.Topic_BLOCK, lib.Topic_TX}
	for i, n := 0, 1+t.Intn(3); i < n; i++ {
		p := mkPayload(0, i, topics[i%len(topics)], 10+t.Intn(3000))
		sent[sha256.Sum256(p)] = true
		mcA.Send(topics[i%len(topics)], p)
	}
	time.Sleep(200 * time.Millisecond)
	synctest.Wait()
	// a real envelope to corrupt
	pkt := &p2p.Packet{StreamId: lib.Topic_TX, Eof: true, Bytes: mkPayload(9, 9, lib.Topic_TX, 200)}
	anyPkt, _ := anypb.New(pkt)
	env, _ := lib.Marshal(&p2p.Envelope{Payload: anyPkt})
	frame := func(body []byte) []byte {
		lp := make([]byte, 4)
		binary.BigEndian.PutUint32(lp, uint32(len(body)))
		return append(lp, body...)
	}
	for i, n := 0, 1+t.Intn(4); i < n; i++ {
		var raw []byte
		kind := ""
		switch t.Pick(3, 2, 2, 2, 2, 2, 1, 1) {
		case 0:
			bad, k := simkit.MutateBytes(t, env)
			raw, kind = frame(bad), "envelope-"+k
		case 1:
			raw, kind = frame(t.Bytes(1+t.Intn(200))), "random-envelope"
		case 2: // an envelope whose payload is a type the receive loop does not expect
			a, _ := anypb.New(&lib.View{Height: 7})
			b, _ := lib.Marshal(&p2p.Envelope{Payload: a})
			raw, kind = frame(b), "foreign-payload-type"
		case 3: // packet for a stream that does not exist
			a, _ := anypb.New(&p2p.Packet{StreamId: lib.Topic(77 + t.Intn(1000)), Eof: true, Bytes: []byte("x")})
			b, _ := lib.Marshal(&p2p.Envelope{Payload: a})
			raw, kind = frame(b), "unknown-stream"
		case 4: // length prefix far beyond the limit
			lp := make([]byte, 4)
			binary.BigEndian.PutUint32(lp, 0xFFFFFFF0-uint32(t.Intn(16)))
			raw, kind = append(lp, t.Bytes(8)...), "length-prefix-over-limit"
		case 5: // length prefix promises more than ever arrives (the reader must time out, not hang)
			lp := make([]byte, 4)
			binary.BigEndian.PutUint32(lp, uint32(500+t.Intn(5000)))
			raw, kind = append(lp, t.Bytes(10)...), "length-prefix-longer-than-data"
		case 6: // empty envelope / nil payload
			raw, kind = frame(nil), "empty-envelope"
		default: // a packet without payload type url
			b, _ := lib.Marshal(&p2p.Envelope{Payload: &anypb.Any{TypeUrl: "", Value: t.Bytes(20)}})
			raw, kind = frame(b), "any-without-type"
		}
		c.Fault("p2p_garbage_" + kind)
		c.Logf("misbehaving peer writes %d bytes: %s", len(raw), kind)
		func() {
			defer func() {
				if r := recover(); r != nil {
					c.ReportFor("C19", "no-panic", "panic-on-untrusted-bytes:p2p-sender", fmt.Sprintf("writing garbage panicked the local side: %v", r))
				}
			}()
			mcA.VerifWriteRaw(raw)
		}()
		time.Sleep(time.Duration(1+t.Intn(2000)) * time.Millisecond)
		synctest.Wait()
		c.Step()
	}
	// give read deadlines and heartbeats time to fire, then look
	time.Sleep(30 * time.Second)
	synctest.Wait()
	c.Check()
	pmu.Lock()
	np := len(panics)
	first := ""
	if np > 0 {
		first = panics[0]
		if len(first) > 300 {
			first = first[:300]
		}
	}
	pmu.Unlock()
	if np > 0 {
		c.ReportFor("C19", "no-panic", "panic-on-untrusted-bytes:p2p-receive", fmt.Sprintf("%d panic(s) in the receiving node's p2p services: %s", np, first))
	}
	// whatever still decodes as a packet is, at this layer, a message the authenticated peer chose to send:
	// there is no "must not be delivered" oracle here, only "must not crash or wedge the receiver"
	c.Progress++
	c.Fingerprint(len(sent), np)
}
