package p2psim

import (
	"bytes"
	"crypto/sha256"
	"encoding/binary"
	"fmt"
	"os"
	"runtime"
	"strconv"
	"sync"
	"testing/synctest"
	"time"

	"verif/simkit"

	"github.com/canopy-network/canopy/lib"
	"github.com/canopy-network/canopy/p2p"
)

// C18: two real P2P instances joined by a MultiConn over the simulated wire. Concurrent senders
// are parked at the yield points inside Stream.queueSends and released one step at a time by
// the tape, so the interleaving of senders is a replayable choice.

func goid() int {
	var buf [64]byte
	n := runtime.Stack(buf[:], false)
	// "goroutine 123 ["
	s := string(buf[10:n])
	for i := 0; i < len(s); i++ {
		if s[i] == ' ' {
			id, _ := strconv.Atoi(s[:i])
			return id
		}
	}
	return -1
}

type sender struct {
	idx      int
	gid      int
	parked   bool
	site     string
	topic    lib.Topic
	released bool
	done     bool
	inside   lib.Topic // topic whose queueSends this sender is inside (valid if isInside)
	isInside bool
	waiting  bool // released into a stream whose lock another sender holds
}

type sched struct {
	mu      sync.Mutex
	cond    *sync.Cond
	byGid   map[int]*sender
	senders []*sender
}

func (s *sched) yield(site string, topic lib.Topic) {
	id := goid()
	s.mu.Lock()
	sd := s.byGid[id]
	if sd == nil {
		s.mu.Unlock()
		return
	}
	sd.parked, sd.site, sd.topic = true, site, topic
	if site == "queueSends.packet" {
		sd.isInside, sd.inside, sd.waiting = true, topic, false
	} else {
		sd.isInside = false
	}
	s.cond.Broadcast()
	for !sd.released {
		s.cond.Wait()
	}
	sd.released = false
	s.mu.Unlock()
}

type sentMsg struct {
	topic   lib.Topic
	payload []byte
	ok      bool
	sender  int
}

func mkPayload(sender, seq int, topic lib.Topic, size int) []byte {
	p := make([]byte, size)
	// header (when it fits) + a pattern that makes any splice or merge detectable
	hdr := make([]byte, 16)
	binary.BigEndian.PutUint32(hdr[0:], uint32(sender))
	binary.BigEndian.PutUint32(hdr[4:], uint32(seq))
	binary.BigEndian.PutUint32(hdr[8:], uint32(topic))
	binary.BigEndian.PutUint32(hdr[12:], uint32(size))
	seed := sha256.Sum256(hdr)
	for i := range p {
		p[i] = seed[i%32] ^ byte(i>>8) ^ byte(i)
	}
	copy(p, hdr)
	return p
}

// RunMux serves C18.
func RunMux(c *simkit.Ctx) {
	t := c.T
	ka, kb := identityKey(c, 0), identityKey(c, 1)
	dirA, _ := os.MkdirTemp("", "verif-p2p-")
	dirB, _ := os.MkdirTemp("", "verif-p2p-")
	defer os.RemoveAll(dirA)
	defer os.RemoveAll(dirB)
	cfgA, cfgB := lib.DefaultConfig(), lib.DefaultConfig()
	cfgA.DataDirPath, cfgB.DataDirPath = dirA, dirB
	cfgA.ChainId, cfgA.NetworkID, cfgB.ChainId, cfgB.NetworkID = 1, 1, 1, 1
	logA, logB := &simkit.Logger{}, &simkit.Logger{}
	pA := p2p.New(ka, 10, nil, cfgA, logA)
	pB := p2p.New(kb, 10, nil, cfgB, logB)
	ca, cb := newLink("A", "B")
	var mcA, mcB *p2p.MultiConn
	var eA, eB lib.ErrorI
	var wg sync.WaitGroup
	wg.Add(2)
	go func() {
		defer wg.Done()
		mcA, eA = pA.NewConnection(ca, &lib.PeerInfo{Address: &lib.PeerAddress{PublicKey: kb.PublicKey().Bytes(), NetAddress: "B"}, IsOutbound: true})
	}()
	go func() {
		defer wg.Done()
		mcB, eB = pB.NewConnection(cb, &lib.PeerInfo{Address: &lib.PeerAddress{PublicKey: ka.PublicKey().Bytes(), NetAddress: "A"}})
	}()
	wg.Wait()
	if eA != nil || eB != nil {
		c.ReportFor("C17", "handshake", "honest-handshake-failed", fmt.Sprintf("NewConnection failed: %v / %v", eA, eB))
		return
	}
	defer func() {
		p2p.VerifYield = nil
		mcA.Stop()
		mcB.Stop()
		// let service goroutines observe the close
		time.Sleep(5 * time.Second)
		synctest.Wait()
	}()
	// workload
	chunk := p2p.VerifMaxDataChunkSize
	sizes := []int{1, 17, 1000, chunk - 1, chunk, chunk + 1, 2*chunk + 5, 3 * chunk, 40000}
	topics := []lib.Topic{lib.Topic_CONSENSUS, lib.Topic_BLOCK, lib.Topic_BLOCK_REQUEST, lib.Topic_TX, lib.Topic_PEERS_RESPONSE, lib.Topic_PEERS_REQUEST}
	nSenders := 2 + t.Intn(3)
	sameTopic := t.Chance(1, 2) // force contention on one stream
	hot := topics[t.Intn(len(topics))]
	bigBudget := 3 // number of multi-packet messages per run (memory)
	sc := &sched{byGid: map[int]*sender{}}
	sc.cond = sync.NewCond(&sc.mu)
	var sentMu sync.Mutex
	var sent []*sentMsg
	plans := make([][]*sentMsg, nSenders)
	for i := 0; i < nSenders; i++ {
		n := 1 + t.Intn(3)
		for k := 0; k < n; k++ {
			tp := topics[t.Intn(len(topics))]
			if sameTopic && t.Chance(3, 4) {
				tp = hot
			}
			sz := sizes[t.Intn(len(sizes))]
			if sz > chunk-1 {
				if bigBudget == 0 {
					sz = 1000
				} else {
					bigBudget--
				}
			}
			plans[i] = append(plans[i], &sentMsg{topic: tp, payload: mkPayload(i, k, tp, sz), sender: i})
		}
	}
	// slow consumer (one run in six): before the scheduled workload, A sends more small messages on the hot
	// topic than B's inbox can hold while B reads nothing; the overflow may be dropped (whole), never kept in
	// pieces. B then drains the inbox; what the later workload delivers on that topic must still be whole.
	if t.Chance(1, 6) {
		nFlood := 1000 + 1 + t.Intn(3)
		if t.Chance(1, 3) {
			nFlood = 900 + t.Intn(200)
		}
		var flood [][]byte
		for k := 0; k < nFlood; k++ {
			pl := mkPayload(90+k%7, k, hot, 24+k%5)
			flood = append(flood, pl)
			mcA.Send(hot, pl)
		}
		time.Sleep(3 * time.Second)
		synctest.Wait()
		got, next := 0, 0
		inbox := pB.Inbox(hot)
	drain:
		for {
			select {
			case m := <-inbox:
				c.Check()
				got++
				for next < len(flood) && !bytes.Equal(flood[next], m.Message) {
					next++
				}
				if next == len(flood) {
					c.ReportFor("C18", "whole-messages", "inbox-message-matches-no-sent-message-slow-consumer",
						fmt.Sprintf("topic %s: message #%d (%d bytes) read by a slow consumer equals none of the remaining messages sent (in order) on that topic", lib.Topic_name[int32(hot)], got, len(m.Message)))
					break drain
				}
				next++
			default:
				break drain
			}
		}
		if got < nFlood {
			c.Probe("inbox_overflow_dropped_messages")
		}
		c.Fault("slow_consumer_inbox_flood")
		c.Logf("mux: slow consumer: %d sent on %s, %d read", nFlood, lib.Topic_name[int32(hot)], got)
	}
	p2p.VerifYield = sc.yield
	var swg sync.WaitGroup
	for i := 0; i < nSenders; i++ {
		sd := &sender{idx: i}
		sc.senders = append(sc.senders, sd)
		swg.Add(1)
		ready := make(chan struct{})
		go func(sd *sender, plan []*sentMsg) {
			defer swg.Done()
			sc.mu.Lock()
			sd.gid = goid()
			sc.byGid[sd.gid] = sd
			sc.mu.Unlock()
			close(ready)
			for _, m := range plan {
				ok := mcA.Send(m.topic, m.payload)
				sentMu.Lock()
				m.ok = ok
				sent = append(sent, m)
				sentMu.Unlock()
			}
			sc.mu.Lock()
			sd.done = true
			sc.cond.Broadcast()
			sc.mu.Unlock()
		}(sd, plans[i])
		<-ready
	}
	// the scheduler: release one parked sender at a time, chosen by the tape
	steps, idle := 0, 0
	holder := map[lib.Topic]*sender{}
	for {
		settle(sc)
		sc.mu.Lock()
		// refresh lock holders from what the senders report
		for k := range holder {
			delete(holder, k)
		}
		for _, sd := range sc.senders {
			if sd.isInside && !sd.done {
				if h, ok := holder[sd.inside]; ok && h != sd {
					c.Probe("two_senders_inside_one_stream")
				}
				holder[sd.inside] = sd
			}
		}
		var cands []*sender
		allDone := true
		for _, sd := range sc.senders {
			if !sd.done {
				allDone = false
			}
			if sd.parked && !sd.done {
				cands = append(cands, sd)
			}
		}
		if allDone {
			sc.mu.Unlock()
			break
		}
		if len(cands) == 0 {
			sc.mu.Unlock()
			// everybody is waiting for something else (queue space, the wire): let time pass
			time.Sleep(10 * time.Millisecond)
			idle++ // not part of the schedule: how often this happens depends on real goroutine timing
			if idle > 20000 {
				c.Harnessf("mux scheduler made no progress")
			}
			continue
		}
		pick := cands[0]
		if len(cands) > 1 {
			pick = cands[t.Intn(len(cands))]
			c.Probe("sender_interleaving_choice")
		}
		if pick.site == "queueSends.enter" {
			if h, ok := holder[pick.topic]; ok && h != pick {
				// deliberately released into a stream whose lock is held: on correct code it blocks on the
				// mutex until the holder leaves; without the mutex it walks in and packets interleave
				pick.waiting = true
				c.Probe("sender_released_into_held_stream")
			}
		}
		pick.released, pick.parked = true, false // running from now on, until it parks again
		sc.cond.Broadcast()
		sc.mu.Unlock()
		c.Step()
		steps++
	}
	swg.Wait()
	p2p.VerifYield = nil
	// let the wire drain
	time.Sleep(2 * time.Second)
	synctest.Wait()
	// collect what arrived
	type key struct {
		topic lib.Topic
		h     [32]byte
	}
	want := map[key]int{}
	for _, m := range sent {
		want[key{m.topic, sha256.Sum256(m.payload)}]++
	}
	delivered := 0
	for _, tp := range topics {
		inbox := pB.Inbox(tp)
		for {
			select {
			case m := <-inbox:
				delivered++
				c.Check()
				k := key{tp, sha256.Sum256(m.Message)}
				if want[k] == 0 {
					// find out what it is: wrong topic, truncated, merged?
					kind := "unknown-bytes"
					for _, s := range sent {
						switch {
						case bytes.Equal(s.payload, m.Message):
							kind = fmt.Sprintf("delivered-on-wrong-topic(sent on %s)", lib.Topic_name[int32(s.topic)])
						case len(m.Message) < len(s.payload) && bytes.HasPrefix(s.payload, m.Message):
							kind = "truncated"
						case len(m.Message) > len(s.payload) && len(s.payload) > 0 && bytes.Contains(m.Message, s.payload[:min(16, len(s.payload))]) && kind == "unknown-bytes":
							kind = "merged-or-interleaved"
						}
					}
					c.ReportFor("C18", "whole-messages", "inbox-message-matches-no-sent-message-"+firstTok(kind),
						fmt.Sprintf("topic %s: a %d-byte message in the remote inbox equals no message sent on that topic (%s)", lib.Topic_name[int32(tp)], len(m.Message), kind))
				} else {
					want[k]--
				}
				if m.Sender == nil || m.Sender.Address == nil || !bytes.Equal(m.Sender.Address.PublicKey, ka.PublicKey().Bytes()) {
					c.ReportFor("C18", "attribution", "wrong-sender", fmt.Sprintf("topic %s: message attributed to %v, sent by the authenticated peer A", lib.Topic_name[int32(tp)], m.Sender))
				}
				continue
			default:
			}
			break
		}
	}
	missing := 0
	for _, n := range want {
		missing += n
	}
	allOK := true
	for _, m := range sent {
		allOK = allOK && m.ok
	}
	c.Check()
	c.Progress++
	c.Logf("mux: senders=%d msgs=%d delivered=%d missing=%d sameTopic=%v steps=%d", nSenders, len(sent), delivered, missing, sameTopic, steps)
	c.Fingerprint(nSenders, len(sent), delivered, sameTopic, steps%7)
	if missing > 0 && allOK {
		// every Send reported success on a healthy link: the messages must be there
		c.ReportFor("C18", "whole-messages", "accepted-message-lost-on-healthy-link", fmt.Sprintf("%d of %d messages whose Send returned true never reached the remote inbox although the link was healthy", missing, len(sent)))
	}
	c.Fault("concurrent_senders")
}

func firstTok(s string) string {
	for i := 0; i < len(s); i++ {
		if s[i] == '(' || s[i] == ' ' {
			return s[:i]
		}
	}
	return s
}

// settle waits until every sender is parked, done, or (by the scheduler's own doing) blocked on a
// stream lock. While a sender may be blocked on a sync.Mutex the bubble is not quiescent for
// synctest, so the scheduler yields the processor a bounded number of times instead.
func settle(sc *sched) {
	for i := 0; i < 100000; i++ {
		sc.mu.Lock()
		pending, waiting := 0, 0
		for _, sd := range sc.senders {
			if sd.done || sd.parked {
				continue
			}
			if sd.waiting {
				waiting++
			} else {
				pending++
			}
		}
		sc.mu.Unlock()
		if pending == 0 && waiting == 0 {
			return
		}
		if pending == 0 && waiting > 0 && i > 200 {
			// the waiting senders did not arrive: they are blocked on the stream lock, as they should
			return
		}
		if waiting == 0 {
			// nobody can be on a mutex: a proper quiescence barrier is safe
			synctest.Wait()
			sc.mu.Lock()
			still := 0
			for _, sd := range sc.senders {
				if !sd.done && !sd.parked {
					still++
				}
			}
			sc.mu.Unlock()
			if still == 0 {
				return
			}
			// a sender is blocked on something durable other than our yield (e.g. a full queue): fine
			return
		}
		runtime.Gosched()
	}
}
