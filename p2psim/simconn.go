// Package p2psim simulates the wire under the real encrypted, multiplexed peer connections:
// a net.Conn whose delivery (chunking, delay, frame faults) is decided by the simulator.
package p2psim

import (
	"errors"
	"io"
	"net"
	"os"
	"sync"
	"time"
)

type addr string

func (a addr) Network() string { return "sim" }
func (a addr) String() string  { return string(a) }

// pipeEnd is one direction of a simulated link: a byte queue with a condition variable
// (sync.Cond.Wait is durably blocking inside a synctest bubble, so the fake clock keeps moving).
type pipeEnd struct {
	mu     sync.Mutex
	cond   *sync.Cond
	buf    []byte
	closed bool
	// maxRead caps how many bytes one Read may return (chunking); 0 = unlimited
	maxRead func() int
	// stalled: bytes written are held back until released
	stalled bool
	held    []byte
}

func newPipeEnd() *pipeEnd {
	p := &pipeEnd{}
	p.cond = sync.NewCond(&p.mu)
	return p
}

func (p *pipeEnd) push(b []byte) {
	p.mu.Lock()
	if p.stalled {
		p.held = append(p.held, b...)
	} else {
		p.buf = append(p.buf, b...)
	}
	p.mu.Unlock()
	p.cond.Broadcast()
}

func (p *pipeEnd) release() {
	p.mu.Lock()
	p.stalled = false
	p.buf = append(p.buf, p.held...)
	p.held = nil
	p.mu.Unlock()
	p.cond.Broadcast()
}

func (p *pipeEnd) close() {
	p.mu.Lock()
	p.closed = true
	p.mu.Unlock()
	p.cond.Broadcast()
}

// simConn implements net.Conn over two pipeEnds. Everything written passes through the
// transform hook of the link (frame faults) before it becomes readable on the other side.
type simConn struct {
	name      string
	in        *pipeEnd // bytes this side reads
	out       *pipeEnd // bytes this side writes (the peer's in)
	transform func(b []byte) []byte
	local     addr
	remote    addr
	mu        sync.Mutex
	rdl       time.Time
	closed    bool
	written   int
}

func newLink(a, b string) (*simConn, *simConn) {
	ab, ba := newPipeEnd(), newPipeEnd()
	ca := &simConn{name: a, in: ba, out: ab, local: addr(a), remote: addr(b)}
	cb := &simConn{name: b, in: ab, out: ba, local: addr(b), remote: addr(a)}
	return ca, cb
}

func (c *simConn) Write(b []byte) (int, error) {
	c.mu.Lock()
	closed := c.closed
	c.mu.Unlock()
	if closed {
		return 0, io.ErrClosedPipe
	}
	data := append([]byte(nil), b...)
	c.written += len(b)
	if c.transform != nil {
		data = c.transform(data)
	}
	if len(data) > 0 {
		c.out.push(data)
	}
	return len(b), nil
}

func (c *simConn) Read(b []byte) (int, error) {
	p := c.in
	p.mu.Lock()
	defer p.mu.Unlock()
	var timer *time.Timer
	for len(p.buf) == 0 {
		if p.closed {
			return 0, io.EOF
		}
		c.mu.Lock()
		dl, cl := c.rdl, c.closed
		c.mu.Unlock()
		if cl {
			return 0, io.ErrClosedPipe
		}
		if !dl.IsZero() {
			d := time.Until(dl)
			if d <= 0 {
				return 0, os.ErrDeadlineExceeded
			}
			if timer == nil {
				// wake the waiter when the (fake-clock) deadline passes
				timer = time.AfterFunc(d, func() { p.cond.Broadcast() })
				defer timer.Stop()
			}
		}
		p.cond.Wait()
	}
	n := len(b)
	if n > len(p.buf) {
		n = len(p.buf)
	}
	if p.maxRead != nil {
		if m := p.maxRead(); m > 0 && m < n {
			n = m
		}
	}
	copy(b, p.buf[:n])
	p.buf = p.buf[n:]
	return n, nil
}

func (c *simConn) Close() error {
	c.mu.Lock()
	c.closed = true
	c.mu.Unlock()
	c.out.close()
	c.in.cond.Broadcast()
	return nil
}

func (c *simConn) LocalAddr() net.Addr  { return c.local }
func (c *simConn) RemoteAddr() net.Addr { return c.remote }
func (c *simConn) SetDeadline(t time.Time) error {
	c.SetReadDeadline(t)
	return nil
}
func (c *simConn) SetReadDeadline(t time.Time) error {
	c.mu.Lock()
	c.rdl = t
	c.mu.Unlock()
	c.in.cond.Broadcast()
	return nil
}
func (c *simConn) SetWriteDeadline(t time.Time) error { return nil }

var errClosed = errors.New("closed")
