package p2psim

import (
	"testing"

	"verif/simkit"
)

func TestWorker(t *testing.T) {
	simkit.WorkerMain(t, "p2psim", map[string]simkit.EngineSpec{
		"C17": {Run: RunEncrypted, Bubble: true},
		"C18": {Run: RunMux, Bubble: true, LeakOK: true},
	})
}
