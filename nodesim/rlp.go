package nodesim

import (
	"fmt"
	"math/big"

	"github.com/canopy-network/canopy/fsm"
	"github.com/canopy-network/canopy/lib"
	"github.com/canopy-network/canopy/lib/crypto"
	"github.com/ethereum/go-ethereum/common"
	ethTypes "github.com/ethereum/go-ethereum/core/types"
)

// Ethereum-wrapped ("RLP" / "RLP.V2") transactions: an Ethereum transaction signed with an
// eth-secp256k1 key, wrapped by the translation layer in fsm/ethereum.go. Plain transfers and the
// contract calls that map to send / edit-stake / unstake / create-order / delete-order / subsidy.

func (w *world) genRLPTx(n *node) *genTx {
	c := w.c
	t := c.T
	w.focus(n)
	sm := n.ctl.FSM
	h := sm.Height()
	from := w.pickActor(func(a *actor) bool { return a.kind == "ethsecp" })
	if from.kind != "ethsecp" {
		return nil
	}
	ek, ok := from.key.(*crypto.ETHSECP256K1PrivateKey)
	if !ok {
		return nil
	}
	priv := ek.PrivateKey
	v2 := t.Chance(1, 2)
	var evm uint64
	if v2 {
		id, ok := fsm.CanopyIdsToEVMChainIdV2(1, 1)
		if !ok {
			return nil
		}
		evm = id
	} else {
		evm = fsm.CanopyIdsToEVMChainId(1, 1)
	}
	chainID := new(big.Int).SetUint64(evm)
	nonce := h // legacy: the nonce is the created height
	acc, _ := sm.GetAccount(crypto.NewAddressFromBytes(from.addr))
	bal := uint64(0)
	if acc != nil {
		bal = acc.Amount
	}
	if v2 {
		floor := uint64(0)
		if acc != nil {
			floor = acc.Nonce
		}
		switch t.Pick(5, 2, 1, 1) {
		case 0:
			nonce = floor
		case 1:
			nonce = floor + uint64(1+t.Intn(3))
		case 2:
			if floor > 0 {
				nonce = floor - 1 // already used
			} else {
				nonce = floor
			}
		default:
			nonce = ^uint64(0) - uint64(t.Intn(2))
		}
	}
	gas := uint64(21_000)
	gasPrice := new(big.Int).Mul(big.NewInt(1_000_000_000_000), big.NewInt(int64(1+t.Intn(2)))) // fee = 21000 or 42000 uCNPY
	to := w.pickActor(nil)
	toAddr := common.BytesToAddress(to.addr)
	value := big.NewInt(0)
	var data []byte
	desc := ""
	sel := func(s string) []byte { b, _ := lib.StringToBytes(s); return b }
	call := func(contract, selector string, m any) {
		pb, _ := lib.Marshal(m)
		toAddr = common.HexToAddress(contract)
		data = append(sel(selector), pb...)
	}
	amt := w.amount(bal)
	switch t.Pick(5, 2, 2, 2, 2, 1, 1) {
	case 0: // plain transfer
		value = fsm.UpscaleTo18Decimals(amt)
		desc = fmt.Sprintf("transfer %s->%s %d", from.name, to.name, amt)
	case 1: // ERC20-style transfer(address,uint256) on the CNPY contract
		toAddr = common.HexToAddress(fsm.CNPYContractAddress)
		data = append(sel(fsm.SendSelector), common.LeftPadBytes(to.addr, 32)...)
		data = append(data, common.LeftPadBytes(new(big.Int).SetUint64(amt).Bytes(), 32)...)
		desc = fmt.Sprintf("erc20-transfer %s->%s %d", from.name, to.name, amt)
	case 2: // unstake a validator (authorized only if this key is its operator or output address)
		v := w.pickActor(func(a *actor) bool { return a.kind == "bls" })
		call(fsm.StakedCNPYContractAddress, fsm.UnstakeSelector, &fsm.MessageUnstake{Address: v.addr})
		desc = fmt.Sprintf("unstake %s by %s", v.name, from.name)
	case 3: // edit stake
		v := w.pickActor(func(a *actor) bool { return a.kind == "bls" })
		cur := uint64(0)
		if val, _ := sm.GetValidator(crypto.NewAddressFromBytes(v.addr)); val != nil {
			cur = val.StakedAmount
		}
		call(fsm.StakedCNPYContractAddress, fsm.EditStakeSelector, &fsm.MessageEditStake{Address: v.addr, Amount: cur + uint64(t.Intn(3))*1000, Committees: []uint64{1}, NetAddress: "tcp://rlp", OutputAddress: from.addr, Signer: from.addr})
		desc = fmt.Sprintf("edit-stake %s by %s", v.name, from.name)
	case 4: // create order
		sell := []uint64{1_000_000_000, 1000, bal}[t.Pick(2, 2, 1)]
		call(fsm.SwapCNPYContractAddress, fsm.CreateOrderSelector, &fsm.MessageCreateOrder{ChainId: nestedId, AmountForSale: sell, RequestedAmount: 1 + uint64(t.Intn(100)), SellerReceiveAddress: from.addr, SellersSendAddress: from.addr})
		desc = fmt.Sprintf("create-order %s sell=%d", from.name, sell)
	case 5: // delete somebody's order
		book, _ := sm.GetOrderBook(nestedId)
		if book == nil || len(book.Orders) == 0 {
			return nil
		}
		o := book.Orders[t.Intn(len(book.Orders))]
		call(fsm.SwapCNPYContractAddress, fsm.DeleteOrderSelector, &fsm.MessageDeleteOrder{OrderId: o.Id, ChainId: nestedId})
		desc = fmt.Sprintf("delete-order %x by %s", o.Id[:4], from.name)
	default: // subsidy
		call(fsm.CNPYContractAddress, fsm.SubsidySelector, &fsm.MessageSubsidy{Address: from.addr, ChainId: 1, Amount: amt})
		desc = fmt.Sprintf("subsidy %s %d", from.name, amt)
	}
	signed, err := ethTypes.SignNewTx(priv, ethTypes.LatestSignerForChainID(chainID), &ethTypes.LegacyTx{Nonce: nonce, GasPrice: gasPrice, Gas: gas, To: &toAddr, Value: value, Data: data})
	if err != nil {
		c.Logf("rlp sign: %v", err)
		return nil
	}
	raw, err := signed.MarshalBinary()
	if err != nil {
		return nil
	}
	var tx *lib.Transaction
	var e lib.ErrorI
	kind := "RLP"
	if v2 {
		tx, e = fsm.RLPToCanopyTransactionV2(raw)
		kind = "RLP.V2"
	} else {
		tx, e = fsm.RLPToCanopyTransaction(raw)
	}
	if e != nil || tx == nil {
		c.Logf("rlp wrap (%s %s): %v", kind, desc, e)
		return nil
	}
	bz, e := lib.Marshal(tx)
	if e != nil {
		return nil
	}
	c.Probe("tx_rlp")
	return &genTx{bz: bz, tx: tx, desc: fmt.Sprintf("%s[nonce %d] %s", kind, nonce, desc), from: from}
}

// rlpKeySwap: the wrapper's public key replaced by another eth key (the raw Ethereum transaction
// and its signature stay): whoever owns that key did not sign anything. Preferably the attacker signs
// an operation on something an eth-key account owns (a validator it is the output address of, a sell
// order it created) and claims that owner's key in the wrapper.
func (w *world) rlpKeySwap(g *genTx) ([]byte, string) {
	c := w.c
	t := c.T
	if g == nil || g.tx == nil || !lib.IsRLPMemo(g.tx.Memo) || g.tx.Signature == nil {
		return nil, ""
	}
	n := w.cur
	if n == nil || !n.up {
		n = w.upNodes()[0]
	}
	w.focus(n)
	sm := n.ctl.FSM
	var mallory *actor
	for _, a := range w.actors {
		if a.stranger && a.kind == "ethsecp" {
			mallory = a
		}
	}
	type target struct {
		owner    *actor
		contract string
		selector string
		msg      any
		desc     string
	}
	var targets []target
	if mallory != nil {
		for _, a := range w.actors {
			if a.kind != "bls" {
				continue
			}
			if v, _ := sm.GetValidator(crypto.NewAddressFromBytes(a.addr)); v != nil {
				if o, ok := w.byAddr[string(v.Output)]; ok && o.kind == "ethsecp" && !o.stranger {
					targets = append(targets, target{o, fsm.StakedCNPYContractAddress, fsm.UnstakeSelector, &fsm.MessageUnstake{Address: a.addr}, "unstake " + a.name})
				}
			}
		}
		if book, _ := sm.GetOrderBook(nestedId); book != nil {
			for _, o := range book.Orders {
				if own, ok := w.byAddr[string(o.SellersSendAddress)]; ok && own.kind == "ethsecp" && !own.stranger && o.BuyerReceiveAddress == nil {
					targets = append(targets, target{own, fsm.SwapCNPYContractAddress, fsm.DeleteOrderSelector, &fsm.MessageDeleteOrder{OrderId: o.Id, ChainId: nestedId}, fmt.Sprintf("delete-order %x", o.Id[:4])})
				}
			}
		}
	}
	if len(targets) > 0 && t.Chance(3, 4) {
		tg := targets[t.Intn(len(targets))]
		v2 := lib.IsRLPMemo(g.tx.Memo) && g.tx.Memo == lib.RLPV2Indicator
		nonce := sm.Height()
		if v2 {
			nonce = 0
			if acc, _ := sm.GetAccount(crypto.NewAddressFromBytes(tg.owner.addr)); acc != nil {
				nonce = acc.Nonce // the floor of the claimed owner
			}
		}
		tx := w.rlpCall(mallory, v2, nonce, tg.contract, tg.selector, tg.msg)
		if tx == nil {
			return nil, ""
		}
		tx.Signature.PublicKey = tg.owner.key.PublicKey().Bytes()
		bz, err := lib.Marshal(tx)
		if err != nil {
			return nil, ""
		}
		c.Probe("rlp_key_swap_on_owned_object")
		return bz, "rlp-wrapper-public-key-swapped(" + tg.desc + " owned by " + tg.owner.name + ")"
	}
	victim := w.pickActor(func(a *actor) bool { return a.kind == "ethsecp" && a != g.from })
	if victim == g.from || victim.kind != "ethsecp" {
		return nil, ""
	}
	bz0, _ := lib.Marshal(g.tx)
	x := new(lib.Transaction)
	if lib.Unmarshal(bz0, x) != nil {
		return nil, ""
	}
	x.Signature.PublicKey = victim.key.PublicKey().Bytes()
	bz, err := lib.Marshal(x)
	if err != nil {
		return nil, ""
	}
	return bz, "rlp-wrapper-public-key-swapped"
}

// rlpCall signs a contract call with from's eth key and wraps it.
func (w *world) rlpCall(from *actor, v2 bool, nonce uint64, contract, selector string, m any) *lib.Transaction {
	ek, ok := from.key.(*crypto.ETHSECP256K1PrivateKey)
	if !ok {
		return nil
	}
	var evm uint64
	if v2 {
		id, ok := fsm.CanopyIdsToEVMChainIdV2(1, 1)
		if !ok {
			return nil
		}
		evm = id
	} else {
		evm = fsm.CanopyIdsToEVMChainId(1, 1)
	}
	pb, _ := lib.Marshal(m)
	sel, _ := lib.StringToBytes(selector)
	to := common.HexToAddress(contract)
	signed, err := ethTypes.SignNewTx(ek.PrivateKey, ethTypes.LatestSignerForChainID(new(big.Int).SetUint64(evm)), &ethTypes.LegacyTx{Nonce: nonce, GasPrice: big.NewInt(1_000_000_000_000), Gas: 21_000, To: &to, Value: big.NewInt(0), Data: append(sel, pb...)})
	if err != nil {
		return nil
	}
	raw, err := signed.MarshalBinary()
	if err != nil {
		return nil
	}
	var tx *lib.Transaction
	var e lib.ErrorI
	if v2 {
		tx, e = fsm.RLPToCanopyTransactionV2(raw)
	} else {
		tx, e = fsm.RLPToCanopyTransaction(raw)
	}
	if e != nil {
		return nil
	}
	return tx
}
