// Package nodesim runs full nodes without sockets: the real controller block pipeline
// (ProduceProposal / ValidateProposal / HandlePeerBlock / CommitCertificate), the real mempool,
// the real FSM and the real store on a simulated disk, inside one testing/synctest bubble.
// The simulator plays consensus and p2p: it picks proposers, forms +2/3 certificates by signing
// with the validators' real BLS keys, delivers block messages, and injects faults between steps.
package nodesim

import (
	"encoding/json"
	"fmt"
	"os"
	"path/filepath"

	"verif/simkit"

	"github.com/canopy-network/canopy/controller"
	"github.com/canopy-network/canopy/fsm"
	"github.com/canopy-network/canopy/lib"
	"github.com/canopy-network/canopy/lib/crypto"
	"github.com/canopy-network/canopy/store"
	"github.com/cockroachdb/pebble/v2"
	"github.com/cockroachdb/pebble/v2/vfs"
)

type node struct {
	w    *world
	idx  int
	key  crypto.PrivateKeyI
	dir  string
	mem  *vfs.MemFS
	db   *pebble.DB
	st   *store.Store
	ctl  *controller.Controller
	log  *simkit.Logger
	up   bool
	name string
}

// rcStub is the root-chain manager of an own-root chain: every query is answered from the node's
// own FSM exactly like the RPC server does (cmd/rpc/query.go): queries run on a view at the
// requested height, 0 meaning latest.
type rcStub struct{ n *node }

func (r *rcStub) Publish(chainId uint64, info *lib.RootChainInfo) {}
func (r *rcStub) ChainIds() []uint64                              { return nil }
func (r *rcStub) GetHeight(rootChainId uint64) uint64             { return r.n.ctl.FSM.Height() }
func (r *rcStub) GetRootChainInfo(rootChainId, chainId uint64) (*lib.RootChainInfo, lib.ErrorI) {
	return r.n.ctl.FSM.LoadRootChainInfo(chainId, 0)
}
func (r *rcStub) GetValidatorSet(rootChainId, id, rootHeight uint64) (lib.ValidatorSet, lib.ErrorI) {
	return r.n.ctl.FSM.LoadCommittee(id, rootHeight)
}
func (r *rcStub) view(height uint64) (*fsm.StateMachine, lib.ErrorI) {
	return r.n.ctl.FSM.TimeMachine(height)
}
func (r *rcStub) GetLotteryWinner(rootChainId, height, id uint64) (*lib.LotteryWinner, lib.ErrorI) {
	v, err := r.view(height)
	if err != nil {
		return nil, err
	}
	defer discardIfView(v, r.n.ctl.FSM)
	return v.LotteryWinner(id)
}
func (r *rcStub) GetOrders(rootChainId, rootHeight, id uint64) (*lib.OrderBook, lib.ErrorI) {
	v, err := r.view(rootHeight)
	if err != nil {
		return nil, err
	}
	defer discardIfView(v, r.n.ctl.FSM)
	return v.GetOrderBook(id)
}
func (r *rcStub) GetOrder(rootChainId, height uint64, orderId string, chainId uint64) (*lib.SellOrder, lib.ErrorI) {
	v, err := r.view(height)
	if err != nil {
		return nil, err
	}
	defer discardIfView(v, r.n.ctl.FSM)
	id, e := lib.StringToBytes(orderId)
	if e != nil {
		return nil, e
	}
	return v.GetOrder(id, chainId)
}
func (r *rcStub) GetDexBatch(rootChainId, height, committee uint64, withPoints bool) (*lib.DexBatch, lib.ErrorI) {
	v, err := r.view(height)
	if err != nil {
		return nil, err
	}
	defer discardIfView(v, r.n.ctl.FSM)
	return v.GetDexBatch(committee, true, withPoints)
}
func (r *rcStub) IsValidDoubleSigner(rootChainId, height uint64, address string) (*bool, lib.ErrorI) {
	addr, e := lib.StringToBytes(address)
	if e != nil {
		return nil, e
	}
	st := r.n.ctl.FSM.Store().(lib.StoreI)
	// mirror of cmd/rpc IsValidDoubleSigner: the last certificate's pending slash recipients count too
	if qc, err := st.GetQCByHeight(st.Version() - 1); err == nil && qc != nil && qc.Results != nil && qc.Results.SlashRecipients != nil {
		for _, ds := range qc.Results.SlashRecipients.DoubleSigners {
			pk, e2 := crypto.NewPublicKeyFromBytes(ds.Id)
			if e2 != nil {
				continue
			}
			if string(pk.Address().Bytes()) == string(addr) {
				for _, h := range ds.Heights {
					if h == height {
						f := false
						return &f, nil
					}
				}
			}
		}
	}
	ok, err := st.IsValidDoubleSigner(addr, height)
	if err != nil {
		return nil, err
	}
	return &ok, nil
}
func (r *rcStub) GetMinimumEvidenceHeight(rootChainId, rootHeight uint64) (*uint64, lib.ErrorI) {
	v, err := r.view(rootHeight)
	if err != nil {
		return nil, err
	}
	defer discardIfView(v, r.n.ctl.FSM)
	m, e := v.LoadMinimumEvidenceHeight()
	return &m, e
}
func (r *rcStub) GetCheckpoint(rootChainId, height, id uint64) (lib.HexBytes, lib.ErrorI) {
	return r.n.ctl.FSM.Store().(lib.StoreI).GetCheckpoint(id, height)
}
func (r *rcStub) Transaction(rootChainId uint64, tx lib.TransactionI) (*string, lib.ErrorI) {
	s := "n/a"
	return &s, nil
}

func discardIfView(v, live *fsm.StateMachine) {
	if v != live {
		v.Discard()
	}
}

// ---- lifecycle ---------------------------------------------------------------------------------------

func (w *world) nodeConfig(dir string) lib.Config {
	cfg := lib.DefaultConfig()
	cfg.DataDirPath = dir
	cfg.ChainId, cfg.NetworkID = 1, 1
	cfg.RunVDF = false
	cfg.StoreConfig.LSSCompactionInterval = 0
	cfg.StoreConfig.BackupInterval = 0
	cfg.LazyMempoolCheckFrequencyS = 0
	cfg.IndexByAccount = true
	return cfg
}

func (w *world) newNode(idx int, key crypto.PrivateKeyI, name string) *node {
	dir, err := os.MkdirTemp("", "verif-nodesim-")
	if err != nil {
		w.c.Harnessf("tempdir: %v", err)
	}
	w.dirs = append(w.dirs, dir)
	bz, err := json.Marshal(w.genesis)
	if err != nil {
		w.c.Harnessf("genesis json: %v", err)
	}
	if err := os.WriteFile(filepath.Join(dir, "genesis.json"), bz, 0o644); err != nil {
		w.c.Harnessf("write genesis: %v", err)
	}
	w.cur = nil
	store.VerifPurgeBlockCache()
	n := &node{w: w, idx: idx, key: key, dir: dir, mem: vfs.NewCrashableMem(), log: &simkit.Logger{Verbose: w.c.Verbose}, name: name}
	n.open()
	w.cur = n
	return n
}

// open (re)starts the node process on its disk.
func (n *node) open() {
	w := n.w
	cfg := w.nodeConfig(n.dir)
	cache := pebble.NewCache(8 << 20)
	defer cache.Unref()
	db, err := pebble.Open("data", store.VerifPebbleOptions(cfg, n.mem, n.log, 64<<20, cache))
	if err != nil {
		w.c.Harnessf("pebble open: %v", err)
	}
	st, e := store.NewStoreWithDB(cfg, db, nil, n.log)
	if e != nil {
		w.c.Harnessf("store open: %v", e)
	}
	sm, e := fsm.New(cfg, st, nil, nil, n.log)
	if e != nil {
		w.c.ReportFor("C09", "reopen", "fsm-init-failed", fmt.Sprintf("%s: fsm.New on reopened store failed: %v", n.name, e))
		w.c.Harnessf("fsm.New: %v", e)
	}
	ctl, e := controller.New(sm, cfg, n.key, nil, n.log)
	if e != nil {
		w.c.Harnessf("controller.New: %v", e)
	}
	ctl.RCManager = &rcStub{n}
	if w.govEnabled() {
		// the node is inside the approve-list voting window of its current round (see gov.go)
		ctl.Consensus.VerifSetProposalVoteDeadline(1 << 61)
	}
	n.db, n.st, n.ctl, n.up = db, st, ctl, true
	// what Controller.Start() does once the root chain info is available
	reset := ctl.SetFSMInConsensusModeForProposals()
	if e := ctl.Mempool.CheckMempool(); e != nil {
		w.c.Logf("%s: initial CheckMempool: %v", n.name, e)
	}
	reset()
}

func (n *node) close() {
	if !n.up {
		return
	}
	func() {
		defer func() { recover() }()
		n.ctl.Mempool.FSM.Discard()
	}()
	func() {
		defer func() { recover() }()
		n.st.Close()
	}()
	n.up = false
}

func (n *node) height() uint64 { return n.ctl.FSM.Height() }

// finishSync mirrors controller.finishSyncing(): once block sync completes the mempool is cleared and
// rebuilt on a fresh copy of the state machine.
func (n *node) finishSync() {
	c := n.ctl
	c.Mempool.L.Lock()
	c.Mempool.Clear()
	c.Mempool.FSM.Discard()
	if m, err := c.FSM.Copy(); err == nil {
		c.Mempool.FSM = m
	}
	c.Mempool.CheckMempool()
	c.Mempool.FSM.Reset()
	c.Mempool.L.Unlock()
}
