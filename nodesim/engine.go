package nodesim

import (
	"bytes"
	"crypto/sha256"
	"fmt"
	"github.com/cockroachdb/pebble/v2/vfs"
	rand "math/rand/v2"
	"strings"
	"time"

	"verif/simkit"

	"github.com/canopy-network/canopy/fsm"
	"github.com/canopy-network/canopy/lib"
	"github.com/canopy-network/canopy/lib/crypto"
	"github.com/canopy-network/canopy/store"
)

type digest struct {
	h interface {
		Write([]byte) (int, error)
		Sum([]byte) []byte
	}
}

func newDigest() *digest { return &digest{h: sha256.New()} }
func (d *digest) add(k, v []byte) {
	var l [8]byte
	l[0], l[1], l[2], l[3] = byte(len(k)), byte(len(k)>>8), byte(len(v)), byte(len(v)>>8)
	d.h.Write(l[:])
	d.h.Write(k)
	d.h.Write(v)
}
func (d *digest) sum() []byte { return d.h.Sum(nil) }

// RunChain is the chain-mode engine: it serves the FSM-level properties.
func RunChain(c *simkit.Ctx) {
	t := c.T
	w := &world{c: c, included: map[string]uint64{}, ledger: newLedger(), mustFail: map[string]string{}, contentSeen: map[string]uint64{}, contentBytes: map[string]string{}}
	defer w.cleanup()
	store.VerifPurgeBlockCache()
	nVals := 3 + t.Intn(2)
	w.buildGenesis(nVals)
	for i := 0; i < nVals; i++ {
		w.nodes = append(w.nodes, w.newNode(i, w.actors[i].key, fmt.Sprintf("node%d", i)))
	}
	nBlocks := t.Range(3, map[string]int{"quick": 10, "thorough": 30}[c.Tier])
	c.Logf("config validators=%d blocks=%d params=%s", nVals, nBlocks, paramStr(w.genesis.Params))
	w.afterCommitOracles("genesis")
	for b := 0; b < nBlocks && !w.halted; b++ {
		c.Step()
		w.stepHeight(-1)
		// faults between heights
		if c.Prop == "C09" && t.Chance(1, 2) {
			w.crashNode(w.nodes[t.Intn(len(w.nodes))])
		}
		switch t.Pick(12, 2, 2, 1, 1) {
		case 1:
			if t.Chance(1, 3) {
				w.crashNode(w.nodes[t.Intn(len(w.nodes))])
			} else {
				w.restartNode(w.nodes[t.Intn(len(w.nodes))])
			}
		case 2:
			store.VerifPurgeBlockCache()
			c.Fault("process_cache_purge")
		case 3:
			w.readAPIs(w.nodes[t.Intn(len(w.nodes))])
		case 4:
			time.Sleep(time.Duration(1+t.Intn(5000)) * time.Millisecond) // clocks move between blocks
		}
	}
	w.finalChecks()
}

func paramStr(p *fsm.Params) string {
	v := p.Validator
	return fmt.Sprintf("unstake=%d pause=%d window=%d maxNonSign=%d nsSlash=%d%% dsSlash=%d%% maxSlash=%d%% maxCommittee=%d minStake=%d",
		v.UnstakingBlocks, v.MaxPauseBlocks, v.NonSignWindow, v.MaxNonSign, v.NonSignSlashPercentage, v.DoubleSignSlashPercentage, v.MaxSlashPerCommittee, v.MaxCommitteeSize, v.MinimumStakeForValidators)
}

// stepHeight drives one height through the real block pipeline of every node.
func (w *world) stepHeight(forceTxs int) {
	c := w.c
	t := c.T
	ups := w.upNodes()
	w.levelUp()
	h := ups[0].height()
	// 1. clients submit transactions
	ntx := t.Intn(7)
	if forceTxs >= 0 {
		ntx = forceTxs
	}
	for i := 0; i < ntx; i++ {
		g := (*genTx)(nil)
		if w.dex != nil && w.dex.on && t.Chance(3, 5) {
			g = w.genDexTx(ups[0])
		} else if w.msig != nil && t.Chance(1, 5) {
			g = w.genMultisigTx(ups[0])
		} else if (c.Prop == "C05" || c.Prop == "C06") && t.Chance(1, 3) {
			g = w.genRLPTx(ups[0])
		} else if w.govEnabled() && t.Chance(1, 6) {
			g = w.genGovTx(ups[0])
		} else {
			g = w.genTx(ups[0])
		}
		advFirst := t.Chance(1, 2)
		adv := c.Prop == "C05" && t.Chance(1, 2) || c.Prop != "C05" && t.Chance(1, 8)
		if adv && advFirst {
			w.authAttack(g)
		}
		w.submit(g)
		if c.Prop == "C19" && t.Chance(1, 2) {
			w.corruptTx(g)
		}
		if adv && !advFirst {
			w.authAttack(g)
		}
	}
	if (c.Prop == "C11" || c.Prop == "C03") && t.Chance(1, 12) {
		w.bigBatch(ups)
	}
	if (c.Prop == "C07" || c.Prop == "C03" || c.Prop == "C11" || c.Prop == "C04") && t.Chance(1, 3) {
		// the last arrival before the proposal is built pays the highest fee and fails in its handler
		w.submit(w.genFailingTx(ups[0]))
	}
	if w.msig != nil && t.Chance(1, 2) {
		w.resubmitBelowThreshold()
	}
	if c.Prop == "C05" && t.Chance(1, 2) {
		w.authCombo([]*genTx{w.genTx(ups[0]), w.genTx(ups[0]), w.genTx(ups[0]), w.genTx(ups[0])})
	}
	if c.Prop == "C06" && t.Chance(2, 3) || c.Prop != "C06" && t.Chance(1, 8) {
		w.replayAttack()
	}
	if (w.dex != nil && w.dex.on || w.slash != nil) && t.Chance(4, 5) {
		w.nestedCertificate(ups[0])
	}
	// 2. proposer
	p := ups[t.Intn(len(ups))]
	pr := w.produce(p)
	if pr == nil {
		return
	}
	// 3. round change: the proposal is discarded after some replicas already validated it
	stale := map[*node]bool{}
	if t.Chance(1, 6) {
		for _, r := range ups {
			validated := false
			if t.Chance(1, 2) {
				w.focus(r)
				res, err := r.ctl.ValidateProposal(pr.rc, w.proposalQC(pr), pr.evidence)
				if err != nil {
					w.honestRejected(r, pr, "validate (before round change)", err)
				} else {
					validated = true
					r.ctl.Consensus.BlockResult = res
				}
			}
			if validated && len(ups) > 2 && len(stale) == 0 && t.Chance(1, 3) {
				// this replica is slow: it still sits in the old round with the old proposal's speculative state
				// and cached result when the block of the next round reaches it through gossip
				stale[r] = true
				c.Fault("replica_keeps_old_round_speculation")
				continue
			}
			r.ctl.ResetFSM() // what bft.RoundInterrupt does
			r.ctl.Consensus.BlockResult = nil
		}
		c.Fault("round_change_discards_speculation")
		// new transactions may arrive in between
		if t.Chance(1, 2) {
			w.submit(w.genTx(ups[0]))
		}
		var fresh []*node
		for _, r := range ups {
			if !stale[r] {
				fresh = append(fresh, r)
			}
		}
		p = fresh[t.Intn(len(fresh))]
		if pr = w.produce(p); pr == nil {
			w.abandonProposal(ups)
			return
		}
	}
	c.Logf("h%d proposer=%s txs=%d rc=%d slashes=%d", h, p.name, len(pr.block.Transactions), pr.rc, len(pr.results.SlashRecipients.GetDoubleSigners()))
	// 4. every node (the proposer too) validates the proposal as a replica
	for _, r := range ups {
		if stale[r] {
			continue
		}
		w.focus(r)
		res, err := r.ctl.ValidateProposal(pr.rc, w.proposalQC(pr), pr.evidence)
		c.Check()
		if err != nil {
			w.honestRejected(r, pr, "ValidateProposal", err)
			continue
		}
		if t.Chance(2, 3) {
			r.ctl.Consensus.BlockResult = res // commit with the cached result
		} else {
			r.ctl.Consensus.BlockResult = nil // commit by replaying the block
			c.Probe("commit_by_replay")
		}
		// header computed on the validate path equals the proposer's
		if res != nil && res.BlockHeader != nil && !bytes.Equal(res.BlockHeader.Hash, pr.block.BlockHeader.Hash) {
			c.ReportFor("C03", "deterministic-execution", "validate-path-header-differs", fmt.Sprintf("%s computed header %x for the block %s proposed as %x", r.name, res.BlockHeader.Hash, p.name, pr.block.BlockHeader.Hash))
		}
	}
	// 5. certificate
	w.focus(p)
	vs, err := p.ctl.FSM.LoadCommittee(1, pr.rc)
	if err != nil {
		// every validator left the committee (paused / unstaking / slashed): nobody can certify a block
		c.Logf("h%d: committee is empty (%v); chain halts by design", h, err)
		c.Probe("committee_became_empty")
		w.halted = true
		w.abandonProposal(ups)
		return
	}
	qc := w.certify(pr, vs, false)
	// a second valid certificate for the same block with another signer set: replicas may end up holding
	// different commit certificates for one height (whoever aggregated it, whenever)
	var qcAlt *lib.QuorumCertificate
	if qc != nil && w.slash == nil && t.Chance(1, 3) {
		qcAlt = w.certify(pr, vs, t.Chance(1, 2))
		if qcAlt != nil && bytes.Equal(qcAlt.Signature.Bitmap, qc.Signature.Bitmap) {
			qcAlt = nil
		}
	}
	if qc == nil {
		c.Logf("h%d: simulator holds keys for less than 2/3 of the committee; stopping", h)
		c.Probe("committee_keys_below_quorum")
		w.abandonProposal(ups)
		return
	}
	// 5b. the attacker's block messages reach nodes before the honest certificate
	if c.Prop == "C02" || t.Chance(1, 10) {
		if t.Chance(1, 4) {
			w.lastCertAttack(pr, ups)
		}
		w.certAttack(pr, vs, qc, ups)
	}
	// 6. delivery
	order := t.Intn(len(ups))
	var lagging []*node
	for i := range ups {
		n := ups[(i+order)%len(ups)]
		if len(ups)-len(lagging) > 1 && t.Chance(1, 8) {
			lagging = append(lagging, n)
			c.Fault("node_misses_block")
			continue
		}
		use := qc
		if qcAlt != nil && t.Chance(1, 2) {
			use = qcAlt
			c.Probe("node_holds_alternative_commit_certificate")
		}
		if w.deliver(n, use, false, "live") && c.Prop == "C19" && t.Chance(1, 2) {
			w.corruptBlockMessage(n, qc)
		}
	}
	w.chain = append(w.chain, &chainRec{height: h, blockHash: pr.block.BlockHeader.Hash, qc: qc, proposer: p.idx})
	w.checkIncluded(h, pr.block.Transactions)
	w.lastBlockTxs = pr.block.Transactions
	for _, tx := range pr.block.Transactions {
		w.mintedInBlock += w.daoMint[string(tx)]
	}
	for _, tx := range pr.block.Transactions {
		w.included[string(tx)] = h
	}
	c.Progress++
	// lagging nodes catch up from a peer's archive (the sync path)
	for _, n := range lagging {
		var src *node
		for _, cand := range ups {
			if cand.height() > h {
				src = cand
				break
			}
		}
		if src == nil {
			break
		}
		w.syncFrom(n, src, h)
	}
	w.afterCommitOracles(fmt.Sprintf("h%d", h))
}

// abandonProposal: the height is never certified, so every replica drops the speculative state its
// ValidateProposal left in the FSM (what bft.RoundInterrupt does through ResetFSM).
func (w *world) abandonProposal(ups []*node) {
	for _, r := range ups {
		w.focus(r)
		r.ctl.ResetFSM()
		r.ctl.Consensus.BlockResult = nil
	}
}

func (w *world) honestRejected(r *node, pr *proposal, stage string, err error) {
	if w.c.Prop == "C07" && err != nil && strings.Contains(err.Error(), "unequal block hash") {
		// the proposer built the block while failing / surplus transactions were executed and rolled back next
		// to it; a replica that executes only the block's transactions on the same prefix gets another result
		w.c.ReportFor("C07", "atomicity", "block-not-reproducible-from-its-transactions",
			fmt.Sprintf("%s at %s: executing the %d transactions of the block %s built for height %d on the same prefix gives a different header (rolled-back work left a trace in the proposer's result)", r.name, stage, len(pr.block.Transactions), w.nodes[pr.proposer].name, pr.block.BlockHeader.Height))
	}
	if w.c.Prop == "C03" && err != nil && strings.Contains(err.Error(), "unequal block hash") {
		// the replica executed the same block on the same prefix and computed another header than the proposer
		w.c.ReportFor("C03", "deterministic-execution", "replica-recomputes-different-header",
			fmt.Sprintf("%s at %s recomputed a different header for the block %s built for height %d on the same chain prefix (txs=%d)", r.name, stage, w.nodes[pr.proposer].name, pr.block.BlockHeader.Height, len(pr.block.Transactions)))
	}
	w.c.ReportFor("C11", "portability", "honest-proposal-rejected",
		fmt.Sprintf("%s rejected at %s the block built by %s for height %d from the same chain prefix: %v (txs=%d)", r.name, stage, w.nodes[pr.proposer].name, pr.block.BlockHeader.Height, err, len(pr.block.Transactions)))
}

func (w *world) deliver(n *node, qc *lib.QuorumCertificate, syncing bool, how string) bool {
	c := w.c
	w.focus(n)
	before := n.st.Version()
	n.ctl.Syncing().Store(syncing)
	_, err := n.ctl.HandlePeerBlock(&lib.BlockMessage{ChainId: 1, MaxHeight: qc.Header.Height, BlockAndCertificate: cloneQC(qc), Time: uint64(time.Now().UnixMicro())}, syncing)
	n.ctl.Syncing().Store(false)
	n.ctl.Consensus.BlockResult = nil
	c.Check()
	if err != nil && strings.Contains(err.Error(), "unequal block hash") {
		// the node executed the certified block and computed another header than the one +2/3 signed
		switch c.Prop {
		case "C03":
			c.ReportFor("C03", "deterministic-execution", "certified-block-recomputed-differently", fmt.Sprintf("%s executed the +2/3 certified block of height %d (%s) and computed a different header", n.name, qc.Header.Height, how))
		case "C07":
			c.ReportFor("C07", "atomicity", "commit-not-reproducible-on-this-node", fmt.Sprintf("%s executed the +2/3 certified block of height %d (%s) on top of its own state and computed a different header (left-over speculative or rolled-back work)", n.name, qc.Header.Height, how))
		}
	}
	if err != nil {
		c.ReportFor("C11", "portability", "valid-certified-block-rejected-"+how, fmt.Sprintf("%s rejected the +2/3 certified block of height %d (%s): %v", n.name, qc.Header.Height, how, err))
		return false
	}
	if n.st.Version() != before+1 {
		c.ReportFor("C09", "commit", "version-not-advanced", fmt.Sprintf("%s: store version %d -> %d after committing height %d", n.name, before, n.st.Version(), qc.Header.Height))
	}
	return true
}

// syncFrom feeds node n the blocks it misses from src's archive (LoadCertificate -> block message).
func (w *world) syncFrom(n, src *node, upTo uint64) {
	c := w.c
	usedSyncMode := false
	defer func() {
		if usedSyncMode {
			w.focus(n)
			n.finishSync()
		}
	}()
	for h := n.height(); h <= upTo; h++ {
		w.focus(src)
		qc, err := src.ctl.LoadCertificate(h)
		c.Check()
		if err != nil || qc == nil || qc.Header == nil {
			c.ReportFor("C11", "archive", "archive-cannot-serve-height", fmt.Sprintf("%s cannot serve committed height %d from its archive: %v", src.name, h, err))
			return
		}
		syncing := c.T.Chance(1, 2)
		usedSyncMode = usedSyncMode || syncing
		if !w.deliver(n, qc, syncing, "archive") {
			return
		}
		c.Probe("block_synced_from_archive")
	}
}

func (w *world) restartNode(n *node) {
	c := w.c
	hBefore := n.height()
	n.close()
	store.VerifPurgeBlockCache()
	w.cur = nil
	w.focus(n)
	n.open()
	c.Fault("node_restart")
	c.Logf("%s restarted at height %d", n.name, n.height())
	if n.height() != hBefore {
		c.ReportFor("C09", "reopen", "restart-changed-height", fmt.Sprintf("%s: height %d before clean restart, %d after", n.name, hBefore, n.height()))
	}
}

// readAPIs issues the read calls an RPC layer makes between commits; they must not change what the
// archive serves afterwards.
func (w *world) readAPIs(n *node) {
	c := w.c
	w.focus(n)
	st := n.ctl.FSM.Store().(lib.StoreI)
	top := n.height() - 1
	if top < 1 {
		return
	}
	h := uint64(1 + c.T.Intn(int(top)))
	switch c.T.Intn(3) {
	case 0:
		st.GetBlockHeaderByHeight(h)
		c.Fault("read_api_header_only")
	case 1:
		st.GetBlockByHeight(h)
		c.Fault("read_api_full_block")
	default:
		if tm, err := n.ctl.FSM.TimeMachine(h); err == nil {
			tm.GetSupply()
			if tm != n.ctl.FSM {
				tm.Discard()
			}
		}
		c.Fault("read_api_time_machine")
	}
}

// ---- oracles evaluated after every committed height ---------------------------------------------

func (w *world) afterCommitOracles(what string) {
	c := w.c
	// one broken invariant usually trips several oracles (a lost stake update breaks conservation and the
	// staking tallies): evaluate the whole group so that the oracle of the property being checked reports
	c.DeferCross = true
	ups := w.upNodes()
	var ref *snapshot
	for _, n := range ups {
		w.focus(n)
		s := w.scan(n)
		c.Fingerprint(s.height, len(s.accounts), len(s.validators), len(s.unstaking), len(s.paused), s.supply.GetTotal()%1000)
		if ref == nil {
			ref = s
			if w.digestAt == nil {
				w.digestAt = map[uint64][]byte{}
			}
			if _, ok := w.digestAt[s.height]; !ok {
				w.digestAt[s.height] = s.digest
			}
			w.checkSupply(n, s, what)
			w.checkStaking(n, s, what)
			w.checkCommittee(n, s, what)
			w.checkDex(n, s, what)
			w.checkSlashing(n, s, what, w.lastBlockTxs)
			if c.Prop == "C19" {
				w.checkKeys(n, s.keys, what)
			}
			continue
		}
		c.Check()
		if s.height == ref.height && !bytes.Equal(s.digest, ref.digest) {
			if c.Prop == "C07" {
				c.ReportFor("C07", "atomicity", "state-differs-between-nodes", fmt.Sprintf("%s: %s and %s are at height %d with different state (%d vs %d keys)", what, ups[0].name, n.name, s.height, ref.nKeys, s.nKeys))
			}
			c.ReportFor("C03", "deterministic-execution", "state-differs-between-nodes", fmt.Sprintf("%s: %s and %s are at height %d with different state (%d vs %d keys)", what, ups[0].name, n.name, s.height, ref.nKeys, s.nKeys))
		}
	}
	w.ledger.observe(w, ref, what)
	c.FlushCross() // not deferred: a violation of the run's own property must unwind undisturbed
}

func (w *world) finalChecks() {
	c := w.c
	if len(w.chain) == 0 || w.halted {
		return
	}
	// C12 bounded liveness: the chain keeps producing (empty) blocks for every future height up to the
	// last pending deferred action (finish-unstaking, max-pause)
	for i := 0; i < 12; i++ {
		s := w.scan(w.upNodes()[0])
		last := uint64(0)
		for h := range s.unstaking {
			if h > last {
				last = h
			}
		}
		for h := range s.paused {
			if h > last {
				last = h
			}
		}
		if last+1 < s.height {
			break
		}
		before := len(w.chain)
		w.stepHeight(0)
		if len(w.chain) == before || w.halted {
			break
		}
		c.Probe("empty_block_applied_past_deferred_action")
	}
	// C11: a fresh node replays the whole chain served from an existing node's archive
	// (a node that crashed in the last step may have rolled back: everybody catches up first)
	w.levelUp()
	src := w.upNodes()[0]
	fresh := w.newNode(len(w.nodes), w.pickKeyOf("ed25519").key, "fresh")
	w.nodes = append(w.nodes, fresh)
	if c.T.Chance(1, 2) {
		w.readAPIs(src)
	}
	w.syncFrom(fresh, src, w.chain[len(w.chain)-1].height)
	c.Check()
	if fresh.height() == src.height() {
		a, b := w.scan(w.focus(fresh)), w.scan(w.focus(src))
		if !bytes.Equal(a.digest, b.digest) {
			c.ReportFor("C11", "archive", "replayed-chain-diverges", fmt.Sprintf("a fresh node that replayed %d blocks from %s's archive has a different state at height %d", len(w.chain), src.name, a.height))
		}
		c.Probe("fresh_node_replayed_chain")
	}
	for _, rec := range w.chain {
		w.focus(fresh)
		blk, err := fresh.ctl.FSM.LoadBlock(rec.height)
		if err != nil || blk == nil || blk.BlockHeader == nil || !bytes.Equal(blk.BlockHeader.Hash, rec.blockHash) {
			c.ReportFor("C11", "archive", "replayed-block-hash-differs", fmt.Sprintf("height %d: fresh node has block hash %v, chain committed %x (err %v)", rec.height, blk, rec.blockHash, err))
		}
	}
}

var _ = crypto.HashString
var _ simkit.Engine

// levelUp: every running node catches up to the tip before the next height starts (a node that is
// behind would not take part in consensus; production syncs it first).
func (w *world) levelUp() {
	ups := w.upNodes()
	var top *node
	for _, n := range ups {
		if top == nil || n.height() > top.height() {
			top = n
		}
	}
	for _, n := range ups {
		if n.height() < top.height() {
			w.syncFrom(n, top, top.height()-1)
		}
	}
}

func (w *world) pickKeyOf(kind string) *actor {
	for _, a := range w.actors {
		if a.kind == kind && !a.isVal {
			return a
		}
	}
	return w.actors[len(w.actors)-1]
}

// bigBatch: several hundred transfers arrive at once (a block with more than 256 transactions).
func (w *world) bigBatch(ups []*node) {
	c := w.c
	t := c.T
	n := ups[0]
	w.focus(n)
	sm := n.ctl.FSM
	from := w.pickActor(func(a *actor) bool { return a.kind == "ed25519" })
	acc, err := sm.GetAccount(crypto.NewAddressFromBytes(from.addr))
	if err != nil || acc == nil || acc.Amount < 8_000_000 {
		return
	}
	count := 258 + t.Intn(80)
	var batch [][]byte
	for i := 0; i < count; i++ {
		to := w.pickActor(nil)
		tx, e := fsm.NewSendTransaction(from.key, crypto.NewAddressFromBytes(to.addr), uint64(1+i), 1, 1, 10000+uint64(t.Intn(3)), sm.Height(), "")
		if e != nil {
			return
		}
		bz, e := lib.Marshal(tx)
		if e != nil {
			return
		}
		batch = append(batch, bz)
	}
	nOK := 0
	for _, nd := range ups {
		w.focus(nd)
		if err := nd.ctl.Mempool.HandleTransactions(batch...); err == nil {
			nOK++
		}
	}
	w.txSeq++
	c.Fault("big_batch_of_transfers")
	c.Logf("tx#%d BATCH of %d transfers from %s (accepted by %d mempools)", w.txSeq, count, from.name, nOK)
}

// crashNode: the node process dies without closing anything; only what the simulated disk holds
// survives (all of the unsynced data, or none of it). The node restarts on that image: it must come
// up at a height it really committed, with exactly the state the chain had at that height, and
// catch up from its peers afterwards.
func (w *world) crashNode(n *node) {
	c := w.c
	if !n.up || len(w.upNodes()) < 2 {
		return
	}
	hBefore := n.height()
	pct := []int{0, 100}[c.T.Intn(2)]
	img := n.mem.CrashClone(vfs.CrashCloneCfg{UnsyncedDataPercent: pct, RNG: rand.New(rand.NewPCG(1, 2))})
	n.close()
	n.mem = img
	store.VerifPurgeBlockCache()
	w.cur = nil
	w.focus(n)
	n.open()
	c.Fault(fmt.Sprintf("node_crash_unsynced_%d", pct))
	h := n.height()
	c.Logf("%s CRASHED at height %d (unsynced data kept: %d%%), restarted at height %d", n.name, hBefore, pct, h)
	c.Check()
	if h > hBefore {
		c.ReportFor("C09", "reopen", "height-from-the-future", fmt.Sprintf("%s crashed at height %d and restarted at height %d", n.name, hBefore, h))
	}
	if h < hBefore {
		c.Probe("node_crash_lost_acknowledged_heights")
	}
	if want, ok := w.digestAt[h]; ok {
		got := w.scan(n)
		if !bytes.Equal(got.digest, want) {
			c.ReportFor("C09", "reopen", "state-after-crash-differs-from-the-chain", fmt.Sprintf("%s restarted at height %d after a crash with a state (%d keys) that differs from the chain's state at that height", n.name, h, got.nKeys))
		}
	}
}
