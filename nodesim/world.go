package nodesim

import (
	"bytes"
	"crypto/ed25519"
	"fmt"
	"os"
	"sort"
	"time"

	"verif/simkit"

	"github.com/canopy-network/canopy/bft"
	"github.com/canopy-network/canopy/fsm"
	"github.com/canopy-network/canopy/lib"
	"github.com/canopy-network/canopy/lib/crypto"
	"github.com/canopy-network/canopy/store"
)

type actor struct {
	key   crypto.PrivateKeyI
	addr  []byte
	name  string
	kind  string // "bls", "ed25519", "secp256k1", "ethsecp"
	isVal bool
	// stranger: a funded account that never appears in any honest message (not a sender, recipient,
	// output address, seller, ...): whatever it signs for others is unauthorized by construction
	stranger bool
}

type world struct {
	c       *simkit.Ctx
	genesis *fsm.GenesisState
	nodes   []*node
	actors  []*actor // everyone who can sign transactions (validators' keys first)
	byAddr  map[string]*actor
	dirs    []string
	// chain bookkeeping
	chain        []*chainRec // committed blocks in order (index 0 = height 1)
	included     map[string]uint64
	includedList [][]byte
	mustFail     map[string]string // tx bytes -> "Cxx|kind": adversarial variants that must never execute
	contentSeen  map[string]uint64
	contentBytes map[string]string
	txSeq        uint64
	// reference ledgers
	ledger        *ledger
	past          map[uint64]*pastCommittee
	halted        bool
	dex           *dexWorld
	slash         *slashWorld
	lastBlockTxs  [][]byte
	digestAt      map[uint64][]byte // raw state digest of the chain at each height (first observation)
	lastNonce     map[string]uint64
	govSeen       map[string]bool
	msig          *multisig
	daoMint       map[string]uint64 // DAO transfers that mint: tx bytes -> amount
	mintedInBlock uint64
	cur           *node // node whose process the simulator is currently "inside"
}

type chainRec struct {
	height    uint64
	blockHash []byte
	header    []byte // marshalled header bytes (proposer path)
	results   []byte
	qc        *lib.QuorumCertificate
	proposer  int
}

func (w *world) cleanup() {
	for _, n := range w.nodes {
		n.close()
	}
	for _, d := range w.dirs {
		os.RemoveAll(d)
	}
	store.VerifPurgeBlockCache()
}

func keyFromTape(c *simkit.Ctx, kind string, salt int) crypto.PrivateKeyI {
	b := c.T.Bytes(32)
	b[15], b[16] = byte(salt+1), byte(0x5A^salt)
	switch kind {
	case "bls":
		b[0], b[31] = b[0]&0x3F, b[31]&0x3F|1
		k, err := crypto.BytesToBLS12381PrivateKey(b)
		if err != nil {
			c.Harnessf("bls key: %v", err)
		}
		return k
	case "ed25519":
		return crypto.BytesToED25519Private(ed25519.NewKeyFromSeed(b))
	case "secp256k1":
		b[0] &= 0x7F
		k, err := crypto.BytesToSECP256K1Private(b)
		if err != nil {
			c.Harnessf("secp key: %v", err)
		}
		return k
	default:
		b[0] &= 0x7F
		k, err := crypto.BytesToEthSECP256K1Private(b)
		if err != nil {
			c.Harnessf("eth key: %v", err)
		}
		return k
	}
}

// buildGenesis draws a randomised genesis: validators (custodial and non-custodial, varied stakes with
// ties), candidate validators, delegates, client accounts of every key type, governance parameters
// chosen so that deferred actions fire inside a run.
func (w *world) buildGenesis(nVals int) {
	c := w.c
	t := c.T
	p := fsm.DefaultParams()
	p.Validator.UnstakingBlocks = uint64(1 + t.Intn(4))
	p.Validator.DelegateUnstakingBlocks = uint64(2 + t.Intn(3))
	p.Validator.MaxPauseBlocks = uint64(2 + t.Intn(4))
	p.Validator.NonSignWindow = uint64(2 + t.Intn(3))
	p.Validator.MaxNonSign = uint64(1 + t.Intn(2))
	p.Validator.NonSignSlashPercentage = []uint64{1, 10, 50, 100}[t.Pick(3, 2, 1, 1)]
	p.Validator.DoubleSignSlashPercentage = []uint64{10, 50, 100}[t.Pick(2, 1, 1)]
	p.Validator.MaxSlashPerCommittee = []uint64{15, 50, 100}[t.Pick(2, 1, 1)]
	p.Validator.MaxCommitteeSize = []uint64{100, 2, uint64(nVals), uint64(nVals + 1)}[t.Pick(3, 1, 1, 1)]
	p.Validator.MaximumDelegatesPerCommittee = []uint64{0, 1, 5}[t.Pick(2, 1, 1)]
	p.Validator.MinimumStakeForValidators = []uint64{0, 1000}[t.Pick(3, 1)]
	if t.Chance(1, 4) {
		// small blocks: the mempool regularly holds more than fits (the oversize path of block building)
		p.Consensus.BlockSize = lib.MaxBlockHeaderSize + uint64(250+t.Intn(1200))
		c.Probe("genesis_small_block_size")
	}
	switch t.Pick(2, 2, 1) {
	case 1: // protocol v2 from genesis: committee-scoped slashing and reward rules
		p.Consensus.ProtocolVersion = fsm.NewProtocolVersion(0, 2)
		c.Probe("genesis_protocol_v2")
	case 2: // upgrade to v2 in the middle of the run
		p.Consensus.ProtocolVersion = fsm.NewProtocolVersion(uint64(2+t.Intn(5)), 2)
		c.Probe("genesis_protocol_v2_upgrade_mid_run")
	}
	if err := p.Check(); err != nil {
		c.Harnessf("generated params invalid: %v", err)
	}
	w.genesis = &fsm.GenesisState{Time: 1, Params: p}
	w.byAddr = map[string]*actor{}
	addActor := func(kind, name string, isVal bool) *actor {
		k := keyFromTape(c, kind, len(w.actors))
		a := &actor{key: k, addr: k.PublicKey().Address().Bytes(), name: name, kind: kind, isVal: isVal}
		w.actors = append(w.actors, a)
		w.byAddr[string(a.addr)] = a
		return a
	}
	var ethOut []int // validators whose output address may be handed to an eth-key client below
	stakes := []uint64{1_000_000, 1_000_000, 2_000_000, 500_000, 1_000_000, 3, 1_000_000}
	if (c.Prop == "C02" || c.Prop == "C13") && t.Chance(1, 2) {
		// tiny weighted stakes: subsets whose power is exactly one short of floor(2T/3)+1 exist
		stakes = [][]uint64{{1, 2, 3, 2, 1, 3, 1}, {7, 1, 1, 1, 7, 1, 1}, {1, 1, 9, 1, 1, 1, 1}}[t.Pick(2, 1, 1)]
		p.Validator.MinimumStakeForValidators = 0
		c.Probe("genesis_tiny_weighted_stakes")
	}
	for i := 0; i < nVals; i++ {
		a := addActor("bls", fmt.Sprintf("val%d", i), true)
		out := a.addr
		ethOut = append(ethOut, len(w.genesis.Validators))
		w.genesis.Validators = append(w.genesis.Validators, &fsm.Validator{Address: a.addr, PublicKey: a.key.PublicKey().Bytes(), NetAddress: fmt.Sprintf("tcp://val%d", i),
			StakedAmount: stakes[(i+t.Intn(3))%len(stakes)], Committees: []uint64{1}, Output: out, Compound: t.Chance(1, 2)})
		w.genesis.Accounts = append(w.genesis.Accounts, &fsm.Account{Address: a.addr, Amount: 50_000_000})
	}
	// candidates (funded, not yet staked), a delegate, and clients of every key type
	for i := 0; i < 2; i++ {
		a := addActor("bls", fmt.Sprintf("cand%d", i), false)
		w.genesis.Accounts = append(w.genesis.Accounts, &fsm.Account{Address: a.addr, Amount: 20_000_000})
	}
	d := addActor("bls", "delegate0", false)
	w.genesis.Validators = append(w.genesis.Validators, &fsm.Validator{Address: d.addr, PublicKey: d.key.PublicKey().Bytes(), StakedAmount: 700_000,
		Committees: []uint64{1, 2}, Output: d.addr, Delegate: true, Compound: true})
	w.genesis.Accounts = append(w.genesis.Accounts, &fsm.Account{Address: d.addr, Amount: 5_000_000})
	if c.Prop == "C13" {
		// more delegates than some delegate caps allow
		for i := 1; i <= 2; i++ {
			dd := addActor("bls", fmt.Sprintf("delegate%d", i), false)
			w.genesis.Validators = append(w.genesis.Validators, &fsm.Validator{Address: dd.addr, PublicKey: dd.key.PublicKey().Bytes(), StakedAmount: uint64(300_000 * i),
				Committees: []uint64{1, 2}, Output: dd.addr, Delegate: true, Compound: i == 1})
			w.genesis.Accounts = append(w.genesis.Accounts, &fsm.Account{Address: dd.addr, Amount: 2_000_000})
		}
	}
	for i, kind := range []string{"ed25519", "secp256k1", "ethsecp", "ed25519", "ethsecp"} {
		a := addActor(kind, fmt.Sprintf("client%d", i), false)
		amt := []uint64{30_000_000, 0, 1, 25_000_000, 100_000}[(i+t.Intn(5))%5]
		if (kind == "ethsecp" || kind == "secp256k1") && t.Chance(2, 3) {
			amt = 40_000_000
		}
		w.genesis.Accounts = append(w.genesis.Accounts, &fsm.Account{Address: a.addr, Amount: amt})
	}
	if c.Prop == "C20" {
		w.dexGenesis()
	}
	if c.Prop == "C14" || c.Prop == "C12" && t.Chance(1, 2) {
		w.slashGenesis()
	}
	if c.Prop == "C05" || c.Prop == "C06" {
		// some validators pay out to (and are controlled by) an eth-key account
		for _, vi := range ethOut {
			if t.Chance(1, 3) {
				for _, a := range w.actors {
					if a.kind == "ethsecp" {
						w.genesis.Validators[vi].Output = a.addr
						break
					}
				}
			}
		}
	}
	if c.Prop == "C05" {
		w.multisigGenesis()
	}
	for i, kind := range []string{"ed25519", "ethsecp"} {
		a := addActor(kind, fmt.Sprintf("mallory%d", i), false)
		a.stranger = true
		w.genesis.Accounts = append(w.genesis.Accounts, &fsm.Account{Address: a.addr, Amount: 60_000_000})
	}
	// pools: DAO and the reward pool of chain 1 start non-empty in some runs
	if t.Chance(1, 2) {
		w.genesis.Pools = append(w.genesis.Pools, &fsm.Pool{Id: lib.DAOPoolID, Amount: 1_000_000})
	}
}

// ---- block production --------------------------------------------------------------------------------

type proposal struct {
	proposer int
	rc       uint64
	blockBz  []byte
	block    *lib.Block
	results  *lib.CertificateResult
	evidence *bft.ByzantineEvidence
}

func (w *world) upNodes() []*node {
	var out []*node
	for _, n := range w.nodes {
		if n.up {
			out = append(out, n)
		}
	}
	return out
}

// produce asks node p for a proposal exactly as the bft engine would at the PROPOSE phase.
func (w *world) produce(p *node) *proposal {
	ev := &bft.ByzantineEvidence{DSE: bft.NewDSE()}
	w.focus(p)
	rc, blockBz, results, err := p.ctl.ProduceProposal(ev, nil)
	if err != nil {
		w.c.ReportFor("C12", "no-wedge", "honest-node-cannot-produce-proposal", fmt.Sprintf("%s at height %d: ProduceProposal failed: %v", p.name, p.height(), err))
		return nil
	}
	blk := new(lib.Block)
	if e := lib.Unmarshal(blockBz, blk); e != nil {
		w.c.Harnessf("unmarshal own proposal: %v", e)
	}
	// a correct proposer has executed every transaction of its block successfully: none of them may be one
	// that must fail (whether or not the replicas would later catch it)
	for _, tx := range blk.Transactions {
		if why, bad := w.mustFail[string(tx)]; bad {
			w.c.ReportFor(why[:3], "must-fail-transaction-executed", why[4:], fmt.Sprintf("%s, a correct proposer, executed successfully and put into its block for height %d %s", p.name, blk.BlockHeader.Height, w.describeBad(tx, why[4:])))
		}
	}
	return &proposal{proposer: p.idx, rc: rc, blockBz: blockBz, block: blk, results: results, evidence: ev}
}

func (w *world) proposalQC(pr *proposal) *lib.QuorumCertificate {
	p := w.nodes[pr.proposer]
	return &lib.QuorumCertificate{
		Header:  &lib.View{NetworkId: 1, ChainId: 1, Height: pr.block.BlockHeader.Height, RootHeight: pr.rc, Round: 0, Phase: lib.Phase_PROPOSE},
		Results: pr.results, ResultsHash: pr.results.Hash(), Block: pr.blockBz, BlockHash: pr.block.BlockHeader.Hash, ProposerKey: p.key.PublicKey().Bytes(),
	}
}

// certify builds the +2/3 PRECOMMIT_VOTE certificate for a proposal by signing with the validators'
// keys; the tape picks which committee members sign (always >= the threshold unless power says otherwise).
func (w *world) certify(pr *proposal, vs lib.ValidatorSet, minimal bool) *lib.QuorumCertificate {
	c := w.c
	p := w.nodes[pr.proposer]
	qc := &lib.QuorumCertificate{
		Header:  &lib.View{NetworkId: 1, ChainId: 1, Height: pr.block.BlockHeader.Height, RootHeight: pr.rc, Round: 0, Phase: lib.Phase_PRECOMMIT_VOTE},
		Results: pr.results, ResultsHash: pr.results.Hash(), Block: pr.blockBz, BlockHash: pr.block.BlockHeader.Hash, ProposerKey: p.key.PublicKey().Bytes(),
	}
	mk := vs.MultiKey.Copy()
	sb := qc.SignBytes()
	// signer order: validators whose keys the simulator holds, shuffled by the tape
	type cand struct {
		idx   int
		power uint64
		a     *actor
	}
	var cands []cand
	for i, v := range vs.ValidatorSet.ValidatorSet {
		pk, err := crypto.NewPublicKeyFromBytes(v.PublicKey)
		if err != nil {
			continue
		}
		if a, ok := w.byAddr[string(pk.Address().Bytes())]; ok {
			cands = append(cands, cand{i, v.VotingPower, a})
		}
	}
	// rotate start so that different members are left out
	if len(cands) > 1 {
		r := c.T.Intn(len(cands))
		cands = append(cands[r:], cands[:r]...)
	}
	var power uint64
	for _, cd := range cands {
		if power >= vs.MinimumMaj23 && (minimal || (w.slash == nil && c.T.Chance(1, 3))) {
			c.Probe("certificate_with_non_signers")
			break
		}
		if err := mk.AddSigner(cd.a.key.Sign(sb), cd.idx); err != nil {
			c.Harnessf("add signer: %v", err)
		}
		power += cd.power
	}
	if power < vs.MinimumMaj23 {
		return nil
	}
	sig, err := mk.AggregateSignatures()
	if err != nil {
		c.Harnessf("aggregate: %v", err)
	}
	qc.Signature = &lib.AggregateSignature{Signature: sig, Bitmap: mk.Bitmap()}
	return qc
}

func cloneQC(qc *lib.QuorumCertificate) *lib.QuorumCertificate {
	bz, _ := lib.Marshal(qc)
	out := new(lib.QuorumCertificate)
	lib.Unmarshal(bz, out)
	return out
}

func sortedAddrs(m map[string]uint64) []string {
	ks := make([]string, 0, len(m))
	for k := range m {
		ks = append(ks, k)
	}
	sort.Strings(ks)
	return ks
}

func hx(b []byte) string {
	if len(b) > 6 {
		return fmt.Sprintf("%x", b[:6])
	}
	return fmt.Sprintf("%x", b)
}

func sameBytes(a, b []byte) bool { return bytes.Equal(a, b) }

var _ = time.Now

// focus switches the simulator to node n's process. All nodes share one OS process here, and the
// store keeps a process-wide block cache keyed by height only: in production every node has its own,
// so the cache is emptied whenever the simulator moves from one node to another (and kept while it
// stays with the same node, so cache-dependent behaviour of a single node is preserved).
func (w *world) focus(n *node) *node {
	if w.cur != n {
		store.VerifPurgeBlockCache()
		w.cur = n
	}
	return n
}
