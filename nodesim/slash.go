package nodesim

import (
	"fmt"
	"sort"

	"github.com/canopy-network/canopy/fsm"
	"github.com/canopy-network/canopy/lib"
	"github.com/canopy-network/canopy/lib/crypto"
)

// C14, state-machine side. The nested committee (stub quorum, real keys, see dex.go) certifies
// slash lists for committee 2: new (validator, height) pairs, pairs already slashed in earlier
// blocks, heights repeated inside one entry, the same validator in two entries, several heights at
// once. Whatever a certified list says, the root chain must slash a validator at most once per
// (validator, height) and - with committee-scoped slashing (protocol v2) - a committee must not
// take more than MaxSlashPerCommittee percent of a validator's stake within one block.

type slashWorld struct {
	certs  map[string][]*lib.DoubleSigner // certificate-results tx bytes -> certified slash list
	done   map[string]map[uint64]bool     // validator address -> heights already slashed
	v2At   uint64                         // first height at which protocol v2 is active (^0 = never)
	nextH  uint64
	used   []uint64
	oracle bool // C14 runs: evaluate the stake ledger (C12 runs only want the slashes to happen)
	prev   *snapshot
}

func (w *world) slashGenesis() {
	t := w.c.T
	w.slash = &slashWorld{certs: map[string][]*lib.DoubleSigner{}, done: map[string]map[uint64]bool{}, v2At: ^uint64(0), oracle: w.c.Prop == "C14"}
	for _, v := range w.genesis.Validators {
		if !v.Delegate {
			v.Committees = []uint64{1, nestedId}
		}
	}
	p := w.genesis.Params
	switch t.Pick(3, 1, 1) {
	case 0:
		p.Consensus.ProtocolVersion = fsm.NewProtocolVersion(0, 2)
		w.slash.v2At = 0
	case 1:
		k := uint64(2 + t.Intn(4))
		p.Consensus.ProtocolVersion = fsm.NewProtocolVersion(k, 2)
		w.slash.v2At = k
	default:
		p.Consensus.ProtocolVersion = fsm.NewProtocolVersion(0, 1)
	}
	// minimum stakes around the validators' stakes: a slash can push a validator below the minimum
	p.Validator.MinimumStakeForValidators = []uint64{0, 1000, 950_000, 1_900_000}[t.Pick(2, 1, 2, 1)]
	p.Validator.DoubleSignSlashPercentage = []uint64{10, 5, 50, 100}[t.Pick(3, 1, 1, 1)]
	p.Validator.MaxSlashPerCommittee = []uint64{15, 10, 50, 100}[t.Pick(3, 1, 1, 1)]
	w.c.Logf("slash genesis: protocol=%s minStake=%d dsSlash=%d%% cap=%d%%", p.Consensus.ProtocolVersion, p.Validator.MinimumStakeForValidators, p.Validator.DoubleSignSlashPercentage, p.Validator.MaxSlashPerCommittee)
}

// slashList draws what the nested quorum certifies.
func (w *world) slashList(sm *fsm.StateMachine) []*lib.DoubleSigner {
	c := w.c
	t := c.T
	vs, err := sm.LoadCommittee(nestedId, sm.Height()-1)
	if err != nil || len(vs.ValidatorSet.ValidatorSet) == 0 || t.Chance(1, 4) {
		return nil
	}
	var out []*lib.DoubleSigner
	n := 1 + t.Pick(4, 2, 1)
	for i := 0; i < n; i++ {
		m := vs.ValidatorSet.ValidatorSet[t.Intn(len(vs.ValidatorSet.ValidatorSet))]
		if t.Chance(1, 2) {
			// any staked validator, member of the committee or not (unstaking, paused)
			var all []*actor
			for _, a := range w.actors {
				if a.kind == "bls" && !a.stranger {
					// delegates never sign certificates, so no evidence can name them: a certified list that
					// slashes a delegate is not something a +2/3 honest quorum produces (out of contract)
					if v, _ := sm.GetValidator(crypto.NewAddressFromBytes(a.addr)); v != nil && !v.Delegate {
						all = append(all, a)
					}
				}
			}
			// validators on their way out (unstaking / paused) first: they are the ones other code paths forget
			var leaving []*actor
			for _, a := range all {
				if v, _ := sm.GetValidator(crypto.NewAddressFromBytes(a.addr)); v != nil && (v.UnstakingHeight != 0 || v.MaxPausedHeight != 0) {
					leaving = append(leaving, a)
				}
			}
			if len(leaving) > 0 && t.Chance(2, 3) {
				all = leaving
				c.Probe("slash_list_names_leaving_validator")
			}
			if len(all) > 0 {
				m = &lib.ConsensusValidator{PublicKey: all[t.Intn(len(all))].key.PublicKey().Bytes()}
			}
		}
		var hs []uint64
		for k, nh := 0, 1+t.Pick(4, 3, 2, 1); k < nh; k++ {
			if len(w.slash.used) > 0 && t.Chance(1, 6) {
				hs = append(hs, w.slash.used[t.Intn(len(w.slash.used))]) // a height some list named before
			} else {
				w.slash.nextH++
				hs = append(hs, w.slash.nextH)
				w.slash.used = append(w.slash.used, w.slash.nextH)
			}
		}
		sort.Slice(hs, func(i, j int) bool { return hs[i] < hs[j] })
		if t.Chance(3, 4) { // most lists carry each height once; the rest keep repeats
			uniq := hs[:0]
			for i, h := range hs {
				if i == 0 || h != hs[i-1] {
					uniq = append(uniq, h)
				}
			}
			hs = uniq
		} else if len(hs) > 1 {
			c.Probe("slash_list_may_repeat_height_in_entry")
		}
		out = append(out, &lib.DoubleSigner{Id: m.PublicKey, Heights: hs})
	}
	return out
}

// checkSlashing compares the stakes before and after the block that was just committed.
func (w *world) checkSlashing(n *node, cur *snapshot, what string, blockTxs [][]byte) {
	c := w.c
	sw := w.slash
	if sw == nil {
		return
	}
	prev := sw.prev
	sw.prev = cur
	if prev == nil || cur.height != prev.height+1 {
		return
	}
	h := prev.height // the block that was applied
	// certified lists executed in this block, in block order
	type ask struct {
		heights []uint64
	}
	asked := map[string]*ask{}
	var order []string
	for _, tx := range blockTxs {
		list, ok := sw.certs[string(tx)]
		if !ok {
			continue
		}
		c.Probe("certified_slash_list_executed")
		for _, ds := range list {
			addr := pubToAddr(ds.Id)
			if addr == "" {
				continue
			}
			if asked[addr] == nil {
				asked[addr] = &ask{}
				order = append(order, addr)
			}
			asked[addr].heights = append(asked[addr].heights, ds.Heights...)
		}
	}
	params := w.genesis.Params.Validator
	p, capPct := params.DoubleSignSlashPercentage, params.MaxSlashPerCommittee
	v2 := sw.v2At != ^uint64(0) && h >= sw.v2At
	for _, addr := range order {
		a := asked[addr]
		before, ok := prev.validators[addr]
		if !ok {
			continue
		}
		if before.UnstakingHeight != 0 && before.UnstakingHeight <= h {
			continue // finishes unstaking in this block
		}
		after := uint64(0)
		if v, ok := cur.validators[addr]; ok {
			after = v.StakedAmount
		}
		if sw.done[addr] == nil {
			sw.done[addr] = map[uint64]bool{}
		}
		nNew := 0
		seen := map[uint64]bool{}
		for _, hh := range a.heights {
			if !seen[hh] && !sw.done[addr][hh] {
				nNew++
			}
			seen[hh] = true
		}
		// lowest stake explainable by slashing once per new (validator, height)
		once := before.StakedAmount
		for i := 0; i < nNew; i++ {
			if p >= 100 {
				once = 0
			} else {
				once = mulDiv(once, 100-p, 100)
			}
		}
		c.Check()
		if after < once && sw.oracle {
			c.ReportFor("C14", "slash-once", "slashed-beyond-once-per-validator-and-height", fmt.Sprintf("%s on %s: validator %x had stake %d, the certified lists of block %d name %d new (validator,height) pairs (heights %v, already slashed %v) at %d%%: stake may fall to %d but is %d", what, n.name, []byte(addr)[:4], before.StakedAmount, h, nNew, a.heights, keysU64(sw.done[addr]), p, once, after))
		}
		if v2 && capPct < 100 {
			bound := mulDiv(before.StakedAmount, 100-capPct, 100)
			tol := uint64(len(a.heights) + 1)
			if bound > tol {
				bound -= tol
			} else {
				bound = 0
			}
			c.Check()
			if after < bound && sw.oracle {
				c.ReportFor("C14", "slash-cap", "committee-slashed-beyond-cap-in-one-block", fmt.Sprintf("%s on %s: validator %x had stake %d and committee %d took it to %d in block %d; the per-committee cap is %d%% (floor %d)", what, n.name, []byte(addr)[:4], before.StakedAmount, nestedId, after, h, capPct, bound))
			}
			c.Probe("slash_cap_checked")
		}
		if after < before.StakedAmount {
			c.Probe("double_sign_slash_applied")
			if before.UnstakingHeight != 0 {
				c.Probe("double_sign_slash_applied_to_unstaking_validator")
			}
			if before.MaxPausedHeight != 0 {
				c.Probe("double_sign_slash_applied_to_paused_validator")
			}
			for hh := range seen {
				sw.done[addr][hh] = true
			}
		}
	}
}

func mulDiv(a, b, d uint64) uint64 {
	hi, lo := mul64(a, b)
	if hi == 0 {
		return lo / d
	}
	q, _ := div128(hi, lo, d)
	return q
}

func keysU64(m map[uint64]bool) []uint64 {
	var ks []uint64
	for k := range m {
		ks = append(ks, k)
	}
	sort.Slice(ks, func(i, j int) bool { return ks[i] < ks[j] })
	return ks
}

func pubToAddr(pub []byte) string {
	pk, err := cryptoPub(pub)
	if err != nil {
		return ""
	}
	return string(pk.Address().Bytes())
}
