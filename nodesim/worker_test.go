package nodesim

import (
	"testing"

	"verif/simkit"
)

func TestWorker(t *testing.T) {
	spec := simkit.EngineSpec{Run: RunChain, Bubble: true, LeakOK: true}
	simkit.WorkerMain(t, "nodesim", map[string]simkit.EngineSpec{
		"C02": spec, "C03": spec, "C04": spec, "C05": spec, "C06": spec, "C07": spec, "C11": spec, "C12": spec, "C13": spec, "C14": spec, "C20": spec, "C19": spec, "C09": spec,
	})
}
