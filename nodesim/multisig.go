package nodesim

import (
	"fmt"

	"github.com/canopy-network/canopy/fsm"
	"github.com/canopy-network/canopy/lib"
	"github.com/canopy-network/canopy/lib/crypto"
	"github.com/drand/kyber"
)

// A k-of-n BLS multisig account (C05 runs). Its members sign sends from the shared account; a
// transaction signed by fewer members than the threshold must never execute, however often it is
// submitted again (mempool re-check, later heights, warm signature caches).

type multisig struct {
	members   []*actor
	points    []kyber.Point
	threshold uint32
	addr      []byte
	pending   [][]byte // below-threshold transactions that are submitted again at later heights
}

func (w *world) multisigGenesis() {
	c := w.c
	ms := &multisig{threshold: 2}
	for _, a := range w.actors {
		if a.kind == "bls" && !a.isVal && len(ms.members) < 3 {
			pt, err := crypto.BytesToBLS12381Point(a.key.PublicKey().Bytes())
			if err != nil {
				return
			}
			ms.members, ms.points = append(ms.members, a), append(ms.points, pt)
		}
	}
	if len(ms.members) < 3 {
		return
	}
	mk, err := crypto.NewAccountAuthMultiBLSFromPoints(ms.points, nil, ms.threshold)
	if err != nil {
		c.Logf("multisig: %v", err)
		return
	}
	ms.addr = mk.Address().Bytes()
	w.genesis.Accounts = append(w.genesis.Accounts, &fsm.Account{Address: ms.addr, Amount: 15_000_000})
	w.msig = ms
}

// genMultisigTx: a send from the shared account signed by `signers` members.
func (w *world) genMultisigTx(n *node) *genTx {
	c := w.c
	t := c.T
	ms := w.msig
	if ms == nil {
		return nil
	}
	w.focus(n)
	sm := n.ctl.FSM
	to := w.pickActor(nil)
	amt := uint64(1 + t.Intn(50_000))
	msg := &fsm.MessageSend{FromAddress: ms.addr, ToAddress: to.addr, Amount: amt}
	a, err := lib.NewAny(msg)
	if err != nil {
		return nil
	}
	tx := &lib.Transaction{MessageType: msg.Name(), Msg: a, CreatedHeight: sm.Height(), Time: uint64(1_700_000_000_000_000 + w.txSeq), Fee: 10000 + uint64(t.Intn(3)), NetworkId: 1, ChainId: 1}
	sb, err := tx.GetSignBytes()
	if err != nil {
		return nil
	}
	mk, e := crypto.NewAccountAuthMultiBLSFromPoints(ms.points, nil, ms.threshold)
	if e != nil {
		return nil
	}
	k := []int{2, 3, 1, 1}[t.Pick(3, 1, 2, 1)]
	first := t.Intn(3)
	for i := 0; i < k; i++ {
		idx := (first + i) % 3
		if e := mk.AddSigner(ms.members[idx].key.Sign(sb), idx); e != nil {
			return nil
		}
	}
	sig, e := mk.AggregateSignatures()
	if e != nil {
		return nil
	}
	tx.Signature = &lib.Signature{PublicKey: mk.Bytes(), Signature: sig}
	bz, err := lib.Marshal(tx)
	if err != nil {
		return nil
	}
	desc := fmt.Sprintf("multisig-send %d-of-3 (threshold %d) -> %s %d", k, ms.threshold, to.name, amt)
	if uint32(k) < ms.threshold {
		w.mustFail[string(bz)] = "C05|unauthorized-multisig-below-threshold"
		ms.pending = append(ms.pending, bz)
		c.Fault("auth_multisig-below-threshold")
	}
	c.Probe("tx_multisig")
	return &genTx{bz: bz, tx: tx, desc: desc, from: ms.members[first]}
}

// resubmitBelowThreshold hands earlier below-threshold transactions to the mempools again.
func (w *world) resubmitBelowThreshold() {
	ms := w.msig
	if ms == nil || len(ms.pending) == 0 {
		return
	}
	bz := ms.pending[w.c.T.Intn(len(ms.pending))]
	w.c.Fault("auth_multisig-below-threshold-resubmitted")
	w.submitRaw(bz, "RESUBMIT of a below-threshold multisig transaction")
}
