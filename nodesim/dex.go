package nodesim

import (
	"bytes"
	"encoding/binary"
	"fmt"
	"math/big"
	"sort"

	"github.com/canopy-network/canopy/fsm"
	"github.com/canopy-network/canopy/lib"
	"github.com/canopy-network/canopy/lib/crypto"
)

// C20 mode. The simulated chain is the root chain (id 1); committee 2 is a nested chain whose
// validators (the simulator holds their keys) report to the root through certificate-results
// transactions. The nested chain itself is a stub: the simulator writes what its +2/3 quorum
// attests - lock / reset / close instructions on the root's order book and the counter chain's DEX
// batch (receipts for the root's locked batch, its own limit orders, deposits, withdrawals, its pool
// size). Everything on the root side is real: the transactions go through mempools, proposals,
// validation, commit, restarts and archive sync like any other transaction.
//
// The accounting identities checked here are local to the root chain and must hold whatever a
// certified counter-chain batch contains.

const nestedId = uint64(2)

type lockRec struct {
	orderId []byte
	recv    []byte
	amount  uint64 // amount in escrow when the lock was issued
	paid    uint64 // first non-zero balance seen at recv
	seen    bool
}

type dexWorld struct {
	on           bool
	nestedHeight uint64
	remotePool   uint64
	recvSeq      uint64
	locks        map[string]*lockRec // dedicated receive address -> record
	byOrder      map[string][]*lockRec
	prev         *snapshot
	// the counter-chain batch submitted for the height being built, keyed by root height
	submitted map[uint64]*lib.DexBatch
	certSeq   uint64
}

func (w *world) dexGenesis() {
	c := w.c
	t := c.T
	w.dex = &dexWorld{on: true, locks: map[string]*lockRec{}, byOrder: map[string][]*lockRec{}, submitted: map[uint64]*lib.DexBatch{}}
	for _, v := range w.genesis.Validators {
		if !v.Delegate {
			v.Committees = []uint64{1, nestedId}
		}
	}
	w.genesis.Params.Validator.MinimumOrderSize = []uint64{1000, 1}[t.Pick(3, 1)]
	L := []uint64{50_000, 1_000_000_000, 1, 3, 1 << 62}[t.Pick(5, 3, 1, 1, 1)]
	P := []uint64{L, 1000, 1}[t.Pick(3, 1, 1)]
	lp := w.actors[len(w.actors)-1] // last client is the initial liquidity provider
	w.genesis.Pools = append(w.genesis.Pools, &fsm.Pool{Id: nestedId + fsm.LiquidityPoolAddend, Amount: L,
		Points: []*lib.PoolPoints{{Address: lp.addr, Points: P}}, TotalPoolPoints: P})
	w.dex.remotePool = []uint64{50_000, 1_000_000_000, 2, 1 << 62}[t.Pick(5, 3, 1, 1)]
	c.Logf("dex genesis: liquidity pool %d points %d (holder %s), counter pool %d", L, P, lp.name, w.dex.remotePool)
}

// genDexTx: local DEX and order-book transactions of the root chain for committee 2.
func (w *world) genDexTx(n *node) *genTx {
	c := w.c
	t := c.T
	w.focus(n)
	sm := n.ctl.FSM
	h := sm.Height()
	fee := uint64(10000) + []uint64{0, 1, 777, 10000}[t.Pick(4, 1, 1, 2)]
	from := w.pickActor(nil)
	bal := uint64(0)
	if acc, err := sm.GetAccount(crypto.NewAddressFromBytes(from.addr)); err == nil && acc != nil {
		bal = acc.Amount
	}
	mk := func(desc string, tx lib.TransactionI, err lib.ErrorI) *genTx {
		if err != nil || tx == nil {
			return nil
		}
		bz, e := lib.Marshal(tx)
		if e != nil {
			return nil
		}
		return &genTx{bz: bz, tx: tx.(*lib.Transaction), desc: desc, from: from}
	}
	switch t.Pick(4, 3, 3, 3) {
	case 0:
		amt := []uint64{uint64(1 + t.Intn(5000)), 1, bal / 2, bal, ^uint64(0)}[t.Pick(6, 1, 1, 1, 1)]
		req := []uint64{0, 1, amt / 2, amt * 3, ^uint64(0)}[t.Pick(3, 2, 2, 1, 1)]
		tx, err := fsm.NewDexLimitOrder(from.key, amt, req, nestedId, 1, 1, fee, h, "")
		return mk(fmt.Sprintf("dex-limit-order %s sell=%d min=%d", from.name, amt, req), tx, err)
	case 1:
		amt := []uint64{uint64(1 + t.Intn(20000)), 1, bal / 3, ^uint64(0) - 5}[t.Pick(6, 1, 1, 1)]
		tx, err := fsm.NewDexLiquidityDeposit(from.key, amt, nestedId, 1, 1, fee, h, "")
		return mk(fmt.Sprintf("dex-deposit %s %d", from.name, amt), tx, err)
	case 2:
		// withdraw: prefer an existing provider
		if pool, err := sm.GetPool(nestedId + fsm.LiquidityPoolAddend); err == nil && len(pool.Points) > 0 && t.Chance(3, 4) {
			if a, ok := w.byAddr[string(pool.Points[t.Intn(len(pool.Points))].Address)]; ok {
				from = a
			}
		}
		pct := []uint64{uint64(1 + t.Intn(100)), 100, 1, 0, 101}[t.Pick(5, 2, 1, 1, 1)]
		tx, err := fsm.NewDexLiquidityWithdraw(from.key, pct, nestedId, 1, 1, fee, h, "")
		return mk(fmt.Sprintf("dex-withdraw %s %d%%", from.name, pct), tx, err)
	default:
		amt := []uint64{uint64(1000 + t.Intn(100_000)), 1, 1000, bal}[t.Pick(6, 1, 1, 1)]
		tx, err := fsm.NewCreateOrderTx(from.key, amt, 1+uint64(t.Intn(1000)), nestedId, nil, from.addr, 1, 1, fee, h, "")
		return mk(fmt.Sprintf("create-order %s sell=%d", from.name, amt), tx, err)
	}
}

func (w *world) freshRecv() []byte {
	w.dex.recvSeq++
	b := make([]byte, 20)
	b[0], b[1] = 0xD0, 0xE5
	binary.BigEndian.PutUint64(b[12:], w.dex.recvSeq)
	return b
}

// nestedCertificate builds the certificate-results transaction of the nested chain for this root height.
func (w *world) nestedCertificate(n *node) {
	c := w.c
	t := c.T
	d := w.dex
	if d == nil {
		d = &dexWorld{locks: map[string]*lockRec{}, byOrder: map[string][]*lockRec{}, submitted: map[uint64]*lib.DexBatch{}}
		w.dex = d
	}
	w.focus(n)
	sm := n.ctl.FSM
	h := sm.Height()
	if h < 2 {
		return
	}
	rootHeight := h - 1
	if t.Chance(1, 5) && rootHeight > 1 {
		rootHeight-- // the nested chain may lag one root block
	}
	vs, err := sm.LoadCommittee(nestedId, rootHeight)
	if err != nil || vs.MultiKey == nil {
		return
	}
	ms, total := w.committeeMembers(vs)
	if len(ms) == 0 {
		return
	}
	d.nestedHeight++
	proposer := ms[t.Intn(len(ms))]
	res := &lib.CertificateResult{
		RewardRecipients: &lib.RewardRecipients{PaymentPercents: []*lib.PaymentPercents{{Address: proposer.a.addr, Percent: 100, ChainId: nestedId}}},
		SlashRecipients:  &lib.SlashRecipients{},
	}
	if d.on {
		res.Orders = w.orderInstructions(sm)
		res.DexBatch = w.counterBatch(sm)
	}
	if w.slash != nil {
		res.SlashRecipients.DoubleSigners = w.slashList(sm)
	}
	hashIn := make([]byte, 16)
	binary.BigEndian.PutUint64(hashIn, d.nestedHeight)
	qc := &lib.QuorumCertificate{
		Header:      &lib.View{NetworkId: 1, ChainId: nestedId, Height: d.nestedHeight, RootHeight: rootHeight, Round: 0, Phase: lib.Phase_PRECOMMIT_VOTE},
		Results:     res,
		ResultsHash: res.Hash(),
		BlockHash:   crypto.Hash(hashIn),
		ProposerKey: proposer.a.key.PublicKey().Bytes(),
	}
	// +2/3 of the nested committee signs
	thr := total*2/3 + 1
	var signers []member2
	var power uint64
	rot := t.Intn(len(ms))
	for i := range ms {
		m := ms[(i+rot)%len(ms)]
		if power >= thr && w.slash == nil && t.Chance(1, 2) {
			break
		}
		signers = append(signers, m)
		power += m.power
	}
	if power < thr {
		return
	}
	qc.Signature = w.aggregate(vs, qc, signers, nil, nil)
	tx, e := fsm.NewCertificateResultsTx(proposer.a.key, qc, 1, 1, 0, h, "")
	if e != nil {
		c.Logf("certificate results tx: %v", e)
		return
	}
	bz, e := lib.Marshal(tx)
	if e != nil {
		return
	}
	d.certSeq++
	if w.slash != nil && len(res.SlashRecipients.DoubleSigners) > 0 {
		w.slash.certs[string(bz)] = res.SlashRecipients.DoubleSigners
	}
	if res.DexBatch != nil {
		d.submitted[h] = res.DexBatch
	}
	nl, nr, nc := 0, 0, 0
	if res.Orders != nil {
		nl, nr, nc = len(res.Orders.LockOrders), len(res.Orders.ResetOrders), len(res.Orders.CloseOrders)
	}
	db := "none"
	if b := res.DexBatch; b != nil {
		db = fmt.Sprintf("receipts=%d orders=%d deposits=%d withdrawals=%d pool=%d", len(b.Receipts), len(b.Orders), len(b.Deposits), len(b.Withdrawals), b.PoolSize)
	}
	sl := ""
	for _, ds := range res.SlashRecipients.DoubleSigners {
		sl += fmt.Sprintf(" slash{%x:%v}", ds.Id[:3], ds.Heights)
	}
	w.submit(&genTx{bz: bz, tx: tx.(*lib.Transaction), desc: fmt.Sprintf("certificate-results nested h%d rh%d lock=%d reset=%d close=%d dex[%s]%s", d.nestedHeight, rootHeight, nl, nr, nc, db, sl), from: proposer.a})
	c.Fault("nested_certificate_results")
}

// orderInstructions: what the nested committee witnessed about the root's sell orders, including
// instructions that conflict or refer to unknown / unlocked / already closed orders.
func (w *world) orderInstructions(sm *fsm.StateMachine) *lib.Orders {
	c := w.c
	t := c.T
	d := w.dex
	book, err := sm.GetOrderBook(nestedId)
	if err != nil || book == nil {
		return nil
	}
	o := &lib.Orders{}
	seenL, seenR, seenC := map[string]bool{}, map[string]bool{}, map[string]bool{}
	for _, ord := range book.Orders {
		id := string(ord.Id)
		locked := ord.BuyerReceiveAddress != nil
		switch {
		case !locked && t.Chance(1, 2):
			r := &lockRec{orderId: ord.Id, recv: w.freshRecv(), amount: ord.AmountForSale}
			d.locks[string(r.recv)] = r
			d.byOrder[id] = append(d.byOrder[id], r)
			send := make([]byte, 20)
			copy(send, t.Bytes(20))
			o.LockOrders = append(o.LockOrders, &lib.LockOrder{OrderId: ord.Id, ChainId: nestedId, BuyerReceiveAddress: r.recv, BuyerSendAddress: send, BuyerChainDeadline: d.nestedHeight + uint64(1+t.Intn(20))})
			seenL[id] = true
			if t.Chance(1, 8) { // locked and closed by the same certificate
				o.CloseOrders = append(o.CloseOrders, ord.Id)
				seenC[id] = true
				c.Probe("order_locked_and_closed_in_one_certificate")
			}
		case !locked && t.Chance(1, 6): // close / reset of an order nobody locked
			if t.Chance(1, 2) {
				o.CloseOrders = append(o.CloseOrders, ord.Id)
				seenC[id] = true
				c.Probe("close_of_unlocked_order")
			} else {
				o.ResetOrders = append(o.ResetOrders, ord.Id)
				seenR[id] = true
			}
		case locked:
			switch t.Pick(3, 2, 1, 2) {
			case 0:
				o.CloseOrders = append(o.CloseOrders, ord.Id)
				seenC[id] = true
			case 1:
				o.ResetOrders = append(o.ResetOrders, ord.Id)
				seenR[id] = true
			case 2: // conflicting: close and reset of the same order
				o.CloseOrders = append(o.CloseOrders, ord.Id)
				o.ResetOrders = append(o.ResetOrders, ord.Id)
				seenC[id], seenR[id] = true, true
				c.Probe("close_and_reset_conflict")
			}
			if t.Chance(1, 6) { // a second buyer tries to lock an already locked order
				r := &lockRec{orderId: ord.Id, recv: w.freshRecv(), amount: ord.AmountForSale}
				d.locks[string(r.recv)] = r
				d.byOrder[id] = append(d.byOrder[id], r)
				o.LockOrders = append(o.LockOrders, &lib.LockOrder{OrderId: ord.Id, ChainId: nestedId, BuyerReceiveAddress: r.recv, BuyerSendAddress: r.recv, BuyerChainDeadline: 1})
				c.Probe("second_lock_on_locked_order")
			}
		}
	}
	// instructions for orders that no longer exist (closed or deleted earlier): asynchronous reports
	if t.Chance(1, 4) {
		var gone [][]byte
		for _, id := range sortedKeys(d.byOrder) {
			if seenC[id] || seenL[id] || seenR[id] {
				continue
			}
			exists := false
			for _, ord := range book.Orders {
				if string(ord.Id) == id {
					exists = true
				}
			}
			if !exists {
				gone = append(gone, []byte(id))
			}
		}
		if len(gone) > 0 {
			o.CloseOrders = append(o.CloseOrders, gone[t.Intn(len(gone))])
			c.Probe("close_of_vanished_order")
		}
	}
	// a duplicated instruction inside one certificate (the whole message must be refused)
	if t.Chance(1, 12) && len(o.CloseOrders) > 0 {
		o.CloseOrders = append(o.CloseOrders, o.CloseOrders[0])
		c.Probe("duplicate_close_in_certificate")
	}
	if len(o.LockOrders)+len(o.ResetOrders)+len(o.CloseOrders) == 0 {
		return nil
	}
	return o
}

// counterBatch: the counter chain's locked DEX batch as certified by its committee.
func (w *world) counterBatch(sm *fsm.StateMachine) *lib.DexBatch {
	c := w.c
	t := c.T
	d := w.dex
	if t.Chance(1, 4) {
		return nil
	}
	ours, err := sm.GetDexBatch(nestedId, true)
	if err != nil {
		return nil
	}
	b := &lib.DexBatch{Committee: 1, PoolSize: d.remotePool, LockedHeight: d.nestedHeight}
	if !ours.IsEmpty() {
		if t.Chance(5, 6) {
			b.ReceiptHash = ours.Hash()
			left := d.remotePool
			for range ours.Orders {
				dy := uint64(0)
				if left > 2 && t.Chance(2, 3) {
					dy = 1 + uint64(t.Intn(int(min64(left-2, 1<<30))))
					if t.Chance(1, 10) {
						dy = left - 1
					}
					left -= dy
				}
				b.Receipts = append(b.Receipts, dy)
			}
			c.Probe("counter_batch_acknowledges_our_locked_batch")
		} else {
			b.ReceiptHash = crypto.Hash([]byte("stale"))
			c.Probe("counter_batch_with_stale_receipt_hash")
		}
	} else {
		b.ReceiptHash = crypto.Hash([]byte{byte(d.nestedHeight)})
	}
	addrs := func() []byte { return w.actors[t.Intn(len(w.actors))].addr }
	for i, n := 0, t.Pick(3, 3, 2, 1); i < n; i++ {
		amt := []uint64{uint64(1 + t.Intn(10000)), 1, d.remotePool, ^uint64(0) - uint64(t.Intn(3))}[t.Pick(6, 1, 1, 1)]
		req := []uint64{0, 1, amt, ^uint64(0)}[t.Pick(4, 2, 1, 1)]
		b.Orders = append(b.Orders, &lib.DexLimitOrder{AmountForSale: amt, RequestedAmount: req, Address: addrs(), OrderId: t.Bytes(4)})
	}
	if t.Chance(1, 10) && len(b.Orders) > 0 { // the same order twice in one batch
		b.Orders = append(b.Orders, b.Orders[0])
		c.Probe("duplicate_order_in_counter_batch")
	}
	for i, n := 0, t.Pick(4, 2, 1); i < n; i++ {
		amt := []uint64{uint64(1 + t.Intn(20000)), 1, ^uint64(0) - 1}[t.Pick(6, 1, 1)]
		b.Deposits = append(b.Deposits, &lib.DexLiquidityDeposit{Address: addrs(), Amount: amt, OrderId: t.Bytes(4)})
	}
	if pool, err := sm.GetPool(nestedId + fsm.LiquidityPoolAddend); err == nil && len(pool.Points) > 0 {
		for i, n := 0, t.Pick(4, 2, 1); i < n; i++ {
			holder := pool.Points[t.Intn(len(pool.Points))].Address
			if t.Chance(1, 8) {
				holder = addrs()
			}
			b.Withdrawals = append(b.Withdrawals, &lib.DexLiquidityWithdraw{Address: holder, Percent: []uint64{uint64(1 + t.Intn(100)), 100, 1}[t.Pick(4, 2, 1)], OrderId: t.Bytes(4)})
		}
		if t.Chance(1, 10) && len(b.Withdrawals) > 0 { // two withdrawals of 100% by one provider
			w0 := b.Withdrawals[0]
			b.Withdrawals = append(b.Withdrawals, &lib.DexLiquidityWithdraw{Address: w0.Address, Percent: 100, OrderId: t.Bytes(4)})
			c.Probe("double_withdrawal_in_counter_batch")
		}
	}
	// the stub's pool drifts like a real one would: receipts paid out, order inflow
	for _, r := range b.Receipts {
		if d.remotePool > r+1 {
			d.remotePool -= r
		}
	}
	if t.Chance(1, 3) {
		d.remotePool += uint64(t.Intn(5000))
	}
	return b
}

func min64(a, b uint64) uint64 {
	if a < b {
		return a
	}
	return b
}

// ---- oracles ---------------------------------------------------------------------------------------

type dexBatches struct{ locked, next *lib.DexBatch }

func (s *snapshot) batches(chain uint64) dexBatches {
	return dexBatches{locked: s.dexLocked[chain], next: s.dexNext[chain]}
}

func (w *world) checkDex(n *node, s *snapshot, what string) {
	c := w.c
	d := w.dex
	if d == nil || !d.on {
		return
	}
	poolAmt := func(id uint64) uint64 {
		if p, ok := s.pools[id]; ok {
			return p.Amount
		}
		return 0
	}
	// (1) escrow pool == sum of open sell orders, per chain
	chains := map[uint64]bool{nestedId: true}
	for id := range s.orders {
		chains[id] = true
	}
	var chainIds []uint64
	for id := range chains {
		chainIds = append(chainIds, id)
	}
	sort.Slice(chainIds, func(i, j int) bool { return chainIds[i] < chainIds[j] })
	for _, id := range chainIds {
		var sum u128
		for _, o := range s.orders[id] {
			sum.add(o.AmountForSale)
		}
		c.Check()
		if esc := poolAmt(id + fsm.EscrowPoolAddend); !sum.eq(esc) {
			c.ReportFor("C20", "escrow", "escrow-pool-differs-from-open-orders", fmt.Sprintf("%s on %s: escrow pool of chain %d holds %d but its %d open sell orders sum to %s", what, n.name, id, esc, len(s.orders[id]), sum))
		}
	}
	// (2) holding pool == pending DEX orders + deposits (locked and next batch)
	var hold u128
	bs := s.batches(nestedId)
	for _, b := range []*lib.DexBatch{bs.locked, bs.next} {
		if b == nil {
			continue
		}
		for _, o := range b.Orders {
			hold.add(o.AmountForSale)
		}
		for _, dp := range b.Deposits {
			hold.add(dp.Amount)
		}
	}
	c.Check()
	if hp := poolAmt(nestedId + fsm.HoldingPoolAddend); !hold.eq(hp) {
		c.ReportFor("C20", "holding", "holding-pool-differs-from-pending-dex-operations", fmt.Sprintf("%s on %s: holding pool of chain %d holds %d but pending DEX orders and deposits sum to %s", what, n.name, nestedId, hp, hold))
	}
	// (3) liquidity points sum to the pool's total
	if lp, ok := s.pools[nestedId+fsm.LiquidityPoolAddend]; ok {
		var pts u128
		seen := map[string]bool{}
		for _, p := range lp.Points {
			pts.add(p.Points)
			if seen[string(p.Address)] {
				c.ReportFor("C20", "points", "provider-listed-twice", fmt.Sprintf("%s on %s: provider %x appears twice in the liquidity pool", what, n.name, p.Address))
			}
			seen[string(p.Address)] = true
		}
		c.Check()
		if !pts.eq(lp.TotalPoolPoints) {
			c.ReportFor("C20", "points", "points-do-not-sum-to-total", fmt.Sprintf("%s on %s: liquidity points sum to %s but the pool records a total of %d (%d providers)", what, n.name, pts, lp.TotalPoolPoints, len(lp.Points)))
		}
	}
	// (4) a locked order pays its dedicated receive address exactly the escrowed amount, exactly once
	open := map[string]*lib.SellOrder{}
	for _, o := range s.orders[nestedId] {
		open[string(o.Id)] = o
	}
	for _, addr := range sortedKeys(d.locks) {
		r := d.locks[addr]
		bal := uint64(0)
		if a, ok := s.accounts[addr]; ok {
			bal = a.Amount
		}
		c.Check()
		o, exists := open[string(r.orderId)]
		switch {
		case !r.seen && bal == 0:
		case !r.seen:
			r.seen, r.paid = true, bal
			// the order as it stood before this block, if this very lock already held it then
			prevAmt, heldBefore := uint64(0), false
			if d.prev != nil {
				for _, po := range d.prev.orders[nestedId] {
					if bytes.Equal(po.Id, r.orderId) && bytes.Equal(po.BuyerReceiveAddress, r.recv) {
						prevAmt, heldBefore = po.AmountForSale, true
					}
				}
			}
			if exists {
				c.ReportFor("C20", "close-order", "paid-while-order-still-open", fmt.Sprintf("%s on %s: receive address %x of order %x holds %d while the order is still in the book", what, n.name, r.recv[12:], r.orderId[:4], bal))
			} else if heldBefore && bal != prevAmt {
				// a locked order cannot be edited, so the escrowed amount is the one recorded with the lock
				c.ReportFor("C20", "close-order", "close-paid-wrong-amount", fmt.Sprintf("%s on %s: closing order %x paid %d to its buyer, the order escrowed %d", what, n.name, r.orderId[:4], bal, prevAmt))
			}
			_ = o
			c.Probe("order_closed_and_paid")
		default:
			if bal != r.paid {
				c.ReportFor("C20", "close-order", "buyer-paid-more-than-once", fmt.Sprintf("%s on %s: receive address %x of order %x held %d after the close and holds %d now", what, n.name, r.recv[12:], r.orderId[:4], r.paid, bal))
			}
		}
	}
	// (5) per processed counter batch: payouts bounded by the reserve, product of reserves not lowered
	if d.prev != nil && s.height == d.prev.height+1 {
		w.checkRotation(n, d.prev, s, what)
	}
	d.prev = s
}

// checkRotation looks at a block in which the root processed a counter-chain batch.
func (w *world) checkRotation(n *node, prev, cur *snapshot, what string) {
	c := w.c
	d := w.dex
	cl := cur.batches(nestedId).locked
	if cl == nil || cl.LockedHeight != prev.height {
		return
	}
	// which of the submitted counter batches did this block process?
	var rb *lib.DexBatch
	var hs []uint64
	for h := range d.submitted {
		hs = append(hs, h)
	}
	sort.Slice(hs, func(i, j int) bool { return hs[i] < hs[j] })
	for _, h := range hs {
		if bytes.Equal(cl.ReceiptHash, d.submitted[h].Copy().Hash()) {
			rb = d.submitted[h]
		}
	}
	if rb == nil {
		return
	}
	c.Probe("counter_batch_processed_and_rotated")
	lpId := nestedId + fsm.LiquidityPoolAddend
	y0 := uint64(0)
	if p, ok := prev.pools[lpId]; ok {
		y0 = p.Amount
	}
	y1 := uint64(0)
	if p, ok := cur.pools[lpId]; ok {
		y1 = p.Amount
	}
	pl := prev.batches(nestedId).locked
	var inflow u128
	inflow.add(y0)
	if pl != nil {
		for _, o := range pl.Orders {
			inflow.add(o.AmountForSale)
		}
		for _, dp := range pl.Deposits {
			inflow.add(dp.Amount)
		}
	}
	// receipts the root produced for the counter chain's orders
	if len(cl.Receipts) != 0 && len(cl.Receipts) != len(rb.Orders) {
		c.ReportFor("C20", "swap", "receipt-count-differs-from-order-count", fmt.Sprintf("%s on %s: %d receipts for %d counter-chain orders", what, n.name, len(cl.Receipts), len(rb.Orders)))
		return
	}
	var paid u128
	var dxOK u128
	for i, r := range cl.Receipts {
		paid.add(r)
		c.Check()
		if r != 0 {
			dxOK.add(rb.Orders[i].AmountForSale)
			if r < rb.Orders[i].RequestedAmount {
				c.ReportFor("C20", "swap", "swap-paid-less-than-the-limit", fmt.Sprintf("%s on %s: counter-chain order %d asked for at least %d and was filled with %d", what, n.name, i, rb.Orders[i].RequestedAmount, r))
			}
		}
	}
	if paid.hi > inflow.hi || (paid.hi == inflow.hi && paid.lo > inflow.lo) {
		c.ReportFor("C20", "swap", "swaps-paid-more-than-the-reserve", fmt.Sprintf("%s on %s: swaps paid %s out of a reserve of at most %s", what, n.name, paid, inflow))
	}
	// clean case: nothing of ours was settled and the counter batch only carries orders -> x*y must not fall
	oursEmpty := pl == nil || pl.IsEmpty()
	if oursEmpty && len(rb.Deposits) == 0 && len(rb.Withdrawals) == 0 && len(rb.Orders) > 0 && paid.hi == 0 && dxOK.hi == 0 {
		x0 := new(big.Int).SetUint64(rb.PoolSize)
		x1 := new(big.Int).Add(x0, new(big.Int).SetUint64(dxOK.lo))
		by0, by1 := new(big.Int).SetUint64(y0), new(big.Int).SetUint64(y1)
		c.Check()
		if y0 < y1 || y0-y1 != paid.lo {
			c.ReportFor("C20", "swap", "reserve-moved-by-other-than-the-receipts", fmt.Sprintf("%s on %s: liquidity pool went %d -> %d while receipts sum to %d", what, n.name, y0, y1, paid.lo))
		} else if new(big.Int).Mul(x1, by1).Cmp(new(big.Int).Mul(x0, by0)) < 0 {
			c.ReportFor("C20", "swap", "product-of-reserves-lowered", fmt.Sprintf("%s on %s: reserves (%d,%d) -> (%s,%d): the product fell", what, n.name, rb.PoolSize, y0, x1, y1))
		}
		c.Probe("swap_only_rotation_checked")
	}
}

func sortedKeys[V any](m map[string]V) []string {
	ks := make([]string, 0, len(m))
	for k := range m {
		ks = append(ks, k)
	}
	sort.Strings(ks)
	return ks
}
