package nodesim

import (
	"bytes"
	"fmt"
	"sort"

	"github.com/canopy-network/canopy/fsm"
	"github.com/canopy-network/canopy/lib"
	"github.com/canopy-network/canopy/lib/crypto"
)

// ---- C04: token supply conservation ---------------------------------------------------------------

func (w *world) checkSupply(n *node, s *snapshot, what string) {
	c := w.c
	c.Check()
	if s.supply == nil {
		c.ReportFor("C04", "conservation", "supply-record-missing", fmt.Sprintf("%s: no supply record in state at height %d", what, s.height))
		return
	}
	var sum u128
	var acc, pool, stake u128
	for _, a := range s.accounts {
		sum.add(a.Amount)
		acc.add(a.Amount)
	}
	for _, p := range s.pools {
		sum.add(p.Amount)
		pool.add(p.Amount)
	}
	for _, v := range s.validators {
		sum.add(v.StakedAmount)
		stake.add(v.StakedAmount)
	}
	if !sum.eq(s.supply.Total) {
		c.ReportFor("C04", "conservation", "total-supply-mismatch",
			fmt.Sprintf("%s (%s, height %d): recorded total %d != accounts %s + pools %s + stakes %s = %s", what, n.name, s.height, s.supply.Total, acc, pool, stake, sum))
	}
}

// ledger tracks the total across blocks: it may only move by the scheduled mint, approved DAO
// mints and explicit burns.
type ledger struct {
	lastTotal  uint64
	lastHeight uint64
	have       bool
}

func newLedger() *ledger { return &ledger{} }

// observe bounds the change of the total between consecutive heights: it never grows by more than
// the block mint plus the approved DAO mints the workload executed (the faucet is off), and it
// never shrinks by more than what slashing and the reward remainder can burn (stake + reward pool).
func (l *ledger) observe(w *world, s *snapshot, what string) {
	c := w.c
	if s == nil || s.supply == nil {
		return
	}
	defer func() { l.lastTotal, l.lastHeight, l.have = s.supply.Total, s.height, true }()
	if !l.have || s.height <= l.lastHeight {
		return
	}
	c.Check()
	blocks := s.height - l.lastHeight
	mint := w.nodes[0].ctl.Config.InitialTokensPerBlock // upper bound: before any halvening
	allowed := mint*blocks + w.mintedInBlock            // plus approved DAO mints executed since the last observation
	w.mintedInBlock = 0
	if s.supply.Total > l.lastTotal && s.supply.Total-l.lastTotal > allowed {
		c.ReportFor("C04", "conservation", "total-grew-beyond-mint",
			fmt.Sprintf("%s: total supply grew by %d over %d block(s) (height %d -> %d), more than the scheduled mint of %d per block plus approved DAO mints (%d allowed)", what, s.supply.Total-l.lastTotal, blocks, l.lastHeight, s.height, mint, allowed))
	}
}

// ---- C12: staking bookkeeping -----------------------------------------------------------------------

func (w *world) checkStaking(n *node, s *snapshot, what string) {
	c := w.c
	c.Check()
	if s.supply == nil {
		return
	}
	var staked, delegated uint64
	perChain, perChainDel := map[uint64]uint64{}, map[uint64]uint64{}
	for _, v := range s.validators {
		staked += v.StakedAmount
		if v.Delegate {
			delegated += v.StakedAmount
		}
		for _, cid := range v.Committees {
			perChain[cid] += v.StakedAmount
			if v.Delegate {
				perChainDel[cid] += v.StakedAmount
			}
		}
	}
	if staked != s.supply.Staked {
		c.ReportFor("C12", "bookkeeping", "staked-tally-mismatch", fmt.Sprintf("%s height %d: Supply.Staked=%d, sum of validator stakes=%d", what, s.height, s.supply.Staked, staked))
	}
	if delegated != s.supply.DelegatedOnly {
		c.ReportFor("C12", "bookkeeping", "delegated-tally-mismatch", fmt.Sprintf("%s height %d: Supply.DelegatedOnly=%d, sum of delegate stakes=%d", what, s.height, s.supply.DelegatedOnly, delegated))
	}
	cmp := func(name string, pools []*fsm.Pool, want map[uint64]uint64) {
		got := map[uint64]uint64{}
		for _, p := range pools {
			got[p.Id] += p.Amount
		}
		ids := map[uint64]bool{}
		for k := range got {
			ids[k] = true
		}
		for k := range want {
			ids[k] = true
		}
		var ks []uint64
		for k := range ids {
			ks = append(ks, k)
		}
		sort.Slice(ks, func(i, j int) bool { return ks[i] < ks[j] })
		for _, k := range ks {
			if got[k] != want[k] {
				c.ReportFor("C12", "bookkeeping", name+"-tally-mismatch", fmt.Sprintf("%s height %d: %s[%d]=%d, sum over validator records=%d", what, s.height, name, k, got[k], want[k]))
			}
		}
	}
	cmp("committee-staked", s.supply.CommitteeStaked, perChain)
	cmp("committee-delegated", s.supply.CommitteeDelegatedOnly, perChainDel)
	// markers <-> validator status
	for h, addrs := range s.unstaking {
		for _, a := range addrs {
			v, ok := s.validators[a]
			if !ok {
				c.ReportFor("C12", "bookkeeping", "unstaking-marker-without-validator", fmt.Sprintf("%s height %d: unstaking marker (%d, %x) refers to no validator", what, s.height, h, a))
			} else if v.UnstakingHeight != h {
				c.ReportFor("C12", "bookkeeping", "unstaking-marker-height-mismatch", fmt.Sprintf("%s height %d: unstaking marker at %d for %x but validator.UnstakingHeight=%d", what, s.height, h, a, v.UnstakingHeight))
			}
		}
	}
	for h, addrs := range s.paused {
		for _, a := range addrs {
			v, ok := s.validators[a]
			if !ok {
				c.ReportFor("C12", "bookkeeping", "paused-marker-without-validator", fmt.Sprintf("%s height %d: paused marker (%d, %x) refers to no validator", what, s.height, h, a))
			} else if v.MaxPausedHeight != h {
				c.ReportFor("C12", "bookkeeping", "paused-marker-height-mismatch", fmt.Sprintf("%s height %d: paused marker at %d for %x but validator.MaxPausedHeight=%d", what, s.height, h, a, v.MaxPausedHeight))
			}
		}
	}
	has := func(m map[uint64][]string, h uint64, a string) bool {
		for _, x := range m[h] {
			if x == a {
				return true
			}
		}
		return false
	}
	for a, v := range s.validators {
		if v.UnstakingHeight != 0 && !has(s.unstaking, v.UnstakingHeight, a) {
			c.ReportFor("C12", "bookkeeping", "unstaking-validator-without-marker", fmt.Sprintf("%s height %d: validator %x has UnstakingHeight=%d but no marker", what, s.height, a, v.UnstakingHeight))
		}
		if v.MaxPausedHeight != 0 && !has(s.paused, v.MaxPausedHeight, a) {
			c.ReportFor("C12", "bookkeeping", "paused-validator-without-marker", fmt.Sprintf("%s height %d: validator %x has MaxPausedHeight=%d but no marker", what, s.height, a, v.MaxPausedHeight))
		}
		if v.UnstakingHeight != 0 {
			c.Probe("validator_unstaking_seen")
		}
		if v.MaxPausedHeight != 0 {
			c.Probe("validator_paused_seen")
		}
	}
}

func keysOf(m map[uint64][]string) []uint64 {
	var ks []uint64
	for k := range m {
		ks = append(ks, k)
	}
	sort.Slice(ks, func(i, j int) bool { return ks[i] < ks[j] })
	return ks
}

// ---- C13: committee derivation ----------------------------------------------------------------------

type member struct {
	pub   []byte
	addr  string
	power uint64
}

// refCommittee derives the committee (or delegate set) of a chain from a raw validator scan.
func refCommittee(s *snapshot, chainId uint64, delegates bool, maxSize uint64) (ms []member, total uint64) {
	for a, v := range s.validators {
		if v.Delegate != delegates || v.MaxPausedHeight != 0 || v.UnstakingHeight != 0 {
			continue
		}
		in := false
		for _, cid := range v.Committees {
			if cid == chainId {
				in = true
			}
		}
		if !in {
			continue
		}
		ms = append(ms, member{pub: v.PublicKey, addr: a, power: v.StakedAmount})
	}
	sort.Slice(ms, func(i, j int) bool {
		if ms[i].power != ms[j].power {
			return ms[i].power > ms[j].power
		}
		return bytes.Compare([]byte(ms[i].addr), []byte(ms[j].addr)) > 0
	})
	if maxSize != 0 && uint64(len(ms)) > maxSize {
		ms = ms[:maxSize]
	}
	for _, m := range ms {
		total += m.power
	}
	return
}

func (w *world) checkCommittee(n *node, s *snapshot, what string) {
	c := w.c
	params, err := n.ctl.FSM.GetParamsVal()
	if err != nil {
		return
	}
	for _, chainId := range []uint64{1, 2} {
		for _, delegates := range []bool{false, true} {
			c.Check()
			maxSize := params.MaxCommitteeSize
			if delegates {
				maxSize = params.MaximumDelegatesPerCommittee
			}
			want, total := refCommittee(s, chainId, delegates, maxSize)
			var got lib.ValidatorSet
			var e lib.ErrorI
			kind := "committee"
			if delegates {
				kind = "delegates"
				got, e = n.ctl.FSM.GetDelegates(chainId)
			} else {
				got, e = n.ctl.FSM.GetCommitteeMembers(chainId)
			}
			if len(want) == 0 || total == 0 {
				if e == nil && got.ValidatorSet != nil && len(got.ValidatorSet.ValidatorSet) != 0 {
					c.ReportFor("C13", "derivation", kind+"-nonempty-but-reference-empty", fmt.Sprintf("%s height %d chain %d: %s has %d members, reference derivation has none", what, s.height, chainId, kind, len(got.ValidatorSet.ValidatorSet)))
				}
				continue
			}
			if e != nil || got.ValidatorSet == nil {
				c.ReportFor("C13", "derivation", kind+"-missing", fmt.Sprintf("%s height %d chain %d: reference %s has %d members but the node returned error %v", what, s.height, chainId, kind, len(want), e))
				continue
			}
			gl := got.ValidatorSet.ValidatorSet
			ok := len(gl) == len(want)
			for i := 0; ok && i < len(gl); i++ {
				if !bytes.Equal(gl[i].PublicKey, want[i].pub) || gl[i].VotingPower != want[i].power {
					ok = false
				}
			}
			if !ok {
				c.ReportFor("C13", "derivation", kind+"-membership-or-order-mismatch", fmt.Sprintf("%s height %d chain %d: node %s = %s, reference (stake desc, address desc, cap %d) = %s", what, s.height, chainId, kind, fmtSet(gl), maxSize, fmtMembers(want)))
			}
			if got.TotalPower != total || got.MinimumMaj23 != (2*total)/3+1 {
				c.ReportFor("C13", "derivation", kind+"-power-or-threshold-mismatch", fmt.Sprintf("%s height %d chain %d: total %d threshold %d, reference total %d threshold %d", what, s.height, chainId, got.TotalPower, got.MinimumMaj23, total, (2*total)/3+1))
			}
			if !delegates && chainId == 1 {
				// remember the answer for this height: asking again later must return the same set
				w.rememberCommittee(s.height, want, total)
				if hasTie(want) {
					c.Probe("committee_with_stake_tie")
				}
				if maxSize != 0 && uint64(len(want)) == maxSize {
					c.Probe("committee_at_cap")
				}
			}
		}
	}
	w.recheckPastCommittees(n, what)
}

func hasTie(ms []member) bool {
	for i := 1; i < len(ms); i++ {
		if ms[i].power == ms[i-1].power {
			return true
		}
	}
	return false
}

func fmtSet(vs []*lib.ConsensusValidator) string {
	s := "["
	for _, v := range vs {
		pk, _ := crypto.NewPublicKeyFromBytes(v.PublicKey)
		a := []byte{}
		if pk != nil {
			a = pk.Address().Bytes()
		}
		s += fmt.Sprintf("%x:%d ", a[:min(3, len(a))], v.VotingPower)
	}
	return s + "]"
}

func fmtMembers(ms []member) string {
	s := "["
	for _, m := range ms {
		s += fmt.Sprintf("%x:%d ", []byte(m.addr)[:3], m.power)
	}
	return s + "]"
}

// ---- committee answers must be stable: asking again later for the same past height returns the same set ----

type pastCommittee struct {
	members []member
	total   uint64
}

func (w *world) rememberCommittee(height uint64, ms []member, total uint64) {
	if w.past == nil {
		w.past = map[uint64]*pastCommittee{}
	}
	if _, ok := w.past[height]; !ok {
		w.past[height] = &pastCommittee{members: ms, total: total}
	}
}

func (w *world) recheckPastCommittees(n *node, what string) {
	c := w.c
	if len(w.past) == 0 {
		return
	}
	var hs []uint64
	for h := range w.past {
		hs = append(hs, h)
	}
	sort.Slice(hs, func(i, j int) bool { return hs[i] < hs[j] })
	// re-ask a few past heights through the historical path the consensus engine uses
	for k := 0; k < 2; k++ {
		h := hs[c.T.Intn(len(hs))]
		if h >= n.height() {
			continue
		}
		c.Check()
		pc := w.past[h]
		got, err := n.ctl.LoadCommittee(1, h)
		if err != nil || got.ValidatorSet == nil {
			c.ReportFor("C13", "stability", "past-committee-unavailable", fmt.Sprintf("%s: committee of height %d asked at height %d: %v", what, h, n.height(), err))
			continue
		}
		gl := got.ValidatorSet.ValidatorSet
		ok := len(gl) == len(pc.members) && got.TotalPower == pc.total
		for i := 0; ok && i < len(gl); i++ {
			if !bytes.Equal(gl[i].PublicKey, pc.members[i].pub) || gl[i].VotingPower != pc.members[i].power {
				ok = false
			}
		}
		if !ok {
			c.ReportFor("C13", "stability", "past-committee-changed", fmt.Sprintf("%s: committee of height %d asked again at height %d = %s (total %d), originally %s (total %d)", what, h, n.height(), fmtSet(gl), got.TotalPower, fmtMembers(pc.members), pc.total))
		}
		c.Probe("past_committee_requeried")
	}
}
