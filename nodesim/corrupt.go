package nodesim

import (
	"bytes"
	"fmt"
	"sort"

	"verif/simkit"

	"github.com/canopy-network/canopy/lib"
	"google.golang.org/protobuf/proto"
)

// C19 faults: corrupted copies of transactions and block messages reach the real mempool and the
// real block admission path. None may panic a node, decode into something that executes, or move
// the store.

// guard runs code of the system under test on untrusted input; a panic escaping it would take the
// node process down.
func (w *world) guard(what string, f func()) {
	defer func() {
		if r := recover(); r != nil {
			if simkit.IsSimPanic(r) {
				panic(r)
			}
			if _, ok := r.(simkit.FatalLog); ok {
				panic(r)
			}
			w.c.ReportFor("C19", "no-panic", "panic-on-untrusted-bytes:"+firstWord(what), fmt.Sprintf("%s panicked: %v", what, r))
		}
	}()
	f()
}

// nestedUnknown: the honest encoding plus ONE unknown field inside a sub-message (any depth, elements of
// repeated fields included). The decoder of consensus-critical messages has to refuse it (C19: "rejects
// unknown fields"); a transaction variant is also registered as must-never-execute.
func (w *world) nestedUnknown(what string, honest []byte, scratch proto.Message, fresh func() proto.Message, isTx bool) {
	c := w.c
	bad, path := simkit.NestedUnknown(honest, scratch)
	if bad == nil || bytes.Equal(bad, honest) {
		return
	}
	c.Fault(what + "_unknown_field_nested")
	if isTx {
		if _, dup := w.mustFail[string(bad)]; !dup {
			w.mustFail[string(bad)] = "C19|corrupted-unknown-field-nested"
		}
	}
	var err error
	w.guard("lib.Unmarshal("+what+", unknown-field-nested)", func() { err = lib.Unmarshal(bad, fresh()) })
	if err == nil {
		c.ReportFor("C19", "decoder-rejects-unknown-fields", "nested-unknown-field-accepted:"+what, fmt.Sprintf("lib.Unmarshal accepted a %s whose sub-message %s carries unknown field 1997", what, path))
	}
	// the same at the top level
	tag := []byte{0xe8, 0x7c, 1} // field 1997, varint 1
	top := append(append([]byte(nil), honest...), tag...)
	err = nil
	w.guard("lib.Unmarshal("+what+", unknown-field-appended)", func() { err = lib.Unmarshal(top, fresh()) })
	if err == nil {
		c.ReportFor("C19", "decoder-rejects-unknown-fields", "unknown-field-accepted:"+what, fmt.Sprintf("lib.Unmarshal accepted a %s with unknown field 1997 appended", what))
	}
}

func (w *world) corruptTx(g *genTx) {
	if g == nil {
		return
	}
	c := w.c
	bad, kind := simkit.MutateBytes(c.T, g.bz)
	if len(bad) == 0 || bytes.Equal(bad, g.bz) {
		return
	}
	switch kind {
	case "unknown-field-appended", "oversize-length-prefix", "truncated", "deep-nesting":
		// the decoder itself must refuse these (or, when truncated, whatever still decodes is not validly signed)
		if _, dup := w.mustFail[string(bad)]; !dup {
			w.mustFail[string(bad)] = "C19|corrupted-" + kind
		}
	}
	nOK := 0
	for _, n := range w.upNodes() {
		w.focus(n)
		w.guard("mempool.HandleTransactions("+kind+")", func() {
			if err := n.ctl.Mempool.HandleTransactions(bad); err == nil {
				nOK++
			}
		})
	}
	w.nestedUnknown("transaction", g.bz, new(lib.Transaction), func() proto.Message { return new(lib.Transaction) }, true)
	w.txSeq++
	c.Fault("tx_corrupted_" + kind)
	c.Logf("tx#%d CORRUPTED(%s) copy of: %s (accepted by %d mempools)", w.txSeq, kind, g.desc, nOK)
}

// corruptBlockMessage: after node n committed the honest block, a corrupted copy of the same block
// message arrives.
func (w *world) corruptBlockMessage(n *node, qc *lib.QuorumCertificate) {
	c := w.c
	bz, err := lib.Marshal(&lib.BlockMessage{ChainId: 1, MaxHeight: qc.Header.Height, BlockAndCertificate: cloneQC(qc), Time: 7})
	if err != nil {
		return
	}
	bad, kind := simkit.MutateBytes(c.T, bz)
	// the types lib.Unmarshal itself treats as critical: the certificate and the block it carries
	if qbz, e := lib.Marshal(qc); e == nil {
		w.nestedUnknown("certificate", qbz, new(lib.QuorumCertificate), func() proto.Message { return new(lib.QuorumCertificate) }, false)
	}
	if len(qc.Block) > 0 {
		w.nestedUnknown("block", qc.Block, new(lib.Block), func() proto.Message { return new(lib.Block) }, false)
	}
	w.focus(n)
	before := n.st.Version()
	var herr error
	decoded := false
	w.guard("HandlePeerBlock("+kind+")", func() {
		m := new(lib.BlockMessage)
		if e := lib.Unmarshal(bad, m); e != nil {
			return
		}
		decoded = true
		if m.BlockAndCertificate == nil {
			return
		}
		_, e := n.ctl.HandlePeerBlock(m, false)
		if e != nil {
			herr = e
		}
	})
	n.ctl.Consensus.BlockResult = nil
	c.Check()
	c.Fault("block_message_corrupted_" + kind)
	c.Logf("corrupted block message [%s] -> %s: decoded=%v err=%v", kind, n.name, decoded, herr)
	if n.st.Version() != before {
		c.ReportFor("C19", "corrupted-input", "corrupted-block-message-moved-the-store", fmt.Sprintf("%s: a corrupted (%s) copy of the block message of height %d changed the store version %d -> %d", n.name, kind, qc.Header.Height, before, n.st.Version()))
	}
}

// checkKeys: raw state keys are sequences of length-prefixed segments and no key lies inside the
// prefix range of another (a key that is a byte prefix of another key would be swept up by an
// iteration or deletion meant for the other).
func (w *world) checkKeys(n *node, keys [][]byte, what string) {
	c := w.c
	sort.Slice(keys, func(i, j int) bool { return bytes.Compare(keys[i], keys[j]) < 0 })
	for i, k := range keys {
		c.Check()
		if decodeSegs(k) == nil {
			c.ReportFor("C19", "store-keys", "state-key-not-length-prefixed", fmt.Sprintf("%s on %s: state key %x is not a sequence of length-prefixed segments", what, n.name, k))
		}
		if i > 0 && bytes.HasPrefix(k, keys[i-1]) {
			c.ReportFor("C19", "store-keys", "state-key-is-prefix-of-another", fmt.Sprintf("%s on %s: state key %x is a prefix of key %x", what, n.name, keys[i-1], k))
		}
	}
}
