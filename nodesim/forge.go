package nodesim

import (
	"bytes"
	"encoding/binary"
	"fmt"
	"sort"

	"github.com/canopy-network/canopy/lib"
	"github.com/canopy-network/canopy/lib/crypto"
)

// C02 finality gate. The attacker sees every honestly produced signature: for each height the
// committee members sign (as honest replicas do) the PROPOSE_VOTE and PRECOMMIT_VOTE views of the
// proposal, and, when a member also serves committee 2, views of that other chain. From those
// signatures, and from keys outside the committee, it assembles block messages that deviate from a
// commit-justifying certificate in one or several fields and hands them to a running node through
// HandlePeerBlock (not in fast-sync mode). None of them may advance the node's store.
//
// Ground truth is computed here and never read back from the implementation: T = sum of the powers
// in the committee the node itself reports for the certificate's root height, threshold
// floor(2T/3)+1, signed power = sum over the members whose genuine signature over exactly the
// delivered sign bytes is inside the aggregate.

type member2 struct {
	idx   int
	power uint64
	a     *actor
}

type forged struct {
	kind string
	qc   *lib.QuorumCertificate
}

func (w *world) committeeMembers(vs lib.ValidatorSet) (ms []member2, total uint64) {
	for i, v := range vs.ValidatorSet.ValidatorSet {
		total += v.VotingPower
		pk, err := crypto.NewPublicKeyFromBytes(v.PublicKey)
		if err != nil {
			continue
		}
		if a, ok := w.byAddr[string(pk.Address().Bytes())]; ok {
			ms = append(ms, member2{i, v.VotingPower, a})
		}
	}
	return
}

// aggregate signs qc's sign bytes with the given (index, key) pairs and sets claim bits additionally.
func (w *world) aggregate(vs lib.ValidatorSet, qc *lib.QuorumCertificate, signers []member2, keyOverride map[int]crypto.PrivateKeyI, claim []int) *lib.AggregateSignature {
	mk := vs.MultiKey.Copy()
	sb := qc.SignBytes()
	for _, s := range signers {
		k := s.a.key
		if o, ok := keyOverride[s.idx]; ok {
			k = o
		}
		if err := mk.AddSigner(k.Sign(sb), s.idx); err != nil {
			w.c.Harnessf("forge: add signer: %v", err)
		}
	}
	var sig []byte
	if len(signers) == 0 {
		// the neutral element: an 'aggregate' of nobody
		sig = make([]byte, crypto.BLS12381SignatureSize)
		sig[0] = 0xc0
	} else {
		var err error
		if sig, err = mk.AggregateSignatures(); err != nil {
			w.c.Harnessf("forge: aggregate: %v", err)
		}
	}
	bm := mk.Copy()
	_ = bm.SetBitmap(mk.Bitmap())
	for _, i := range claim {
		_ = bm.AddSigner([]byte{1}, i)
	}
	return &lib.AggregateSignature{Signature: sig, Bitmap: bm.Bitmap()}
}

// belowQuorum picks a set of members whose power stays under the threshold: the heaviest such set
// (closest to the threshold) or, with manyFirst, the one with the most members (small stakes first).
func belowQuorum(ms []member2, thr uint64, rot int, manyFirst bool) (in, out []member2, power uint64) {
	s := append([]member2(nil), ms...)
	if len(s) > 1 {
		rot %= len(s)
		s = append(s[rot:], s[:rot]...)
	}
	if manyFirst {
		sort.SliceStable(s, func(i, j int) bool { return s[i].power < s[j].power })
	} else {
		sort.SliceStable(s, func(i, j int) bool { return s[i].power > s[j].power })
	}
	for _, m := range s {
		if power+m.power < thr {
			in = append(in, m)
			power += m.power
		} else {
			out = append(out, m)
		}
	}
	return
}

func (w *world) baseQC(pr *proposal, phase lib.Phase) *lib.QuorumCertificate {
	p := w.nodes[pr.proposer]
	return &lib.QuorumCertificate{
		Header:  &lib.View{NetworkId: 1, ChainId: 1, Height: pr.block.BlockHeader.Height, RootHeight: pr.rc, Round: 0, Phase: phase},
		Results: pr.results, ResultsHash: pr.results.Hash(), Block: pr.blockBz, BlockHash: pr.block.BlockHeader.Hash, ProposerKey: p.key.PublicKey().Bytes(),
	}
}

// forgeCertificates assembles the attacker's block messages for this height.
func (w *world) forgeCertificates(pr *proposal, vs lib.ValidatorSet, honest *lib.QuorumCertificate) (out []forged) {
	c := w.c
	t := c.T
	ms, total := w.committeeMembers(vs)
	thr := total*2/3 + 1
	if total > (^uint64(0))/2 {
		return nil
	}
	all := ms
	manyFirst := t.Chance(1, 2)
	under, rest, underPower := belowQuorum(ms, thr, t.Intn(8), manyFirst)
	if manyFirst && len(under)*3 > len(ms)*2 {
		c.Probe("forged_signers_above_two_thirds_by_count_below_by_power")
	}
	add := func(kind string, qc *lib.QuorumCertificate) { out = append(out, forged{kind, qc}) }
	idxs := func(m []member2) (r []int) {
		for _, x := range m {
			r = append(r, x.idx)
		}
		return
	}
	outsider := func(i int) crypto.PrivateKeyI {
		// BLS keys that are not in the committee: candidates / delegate, else a derived stranger
		var cs []*actor
		inSet := map[string]bool{}
		for _, m := range ms {
			inSet[string(m.a.addr)] = true
		}
		for _, a := range w.actors {
			if a.kind == "bls" && !inSet[string(a.addr)] {
				cs = append(cs, a)
			}
		}
		if len(cs) == 0 {
			b := make([]byte, 32)
			b[31], b[7] = byte(i+1), 0x77
			k, _ := crypto.BytesToBLS12381PrivateKey(b)
			return k
		}
		return cs[i%len(cs)].key
	}
	kind := t.Intn(16)
	switch kind {
	case 0: // valid signatures, one vote short of the threshold (the boundary power thr-1 where stakes allow it)
		if len(under) == 0 {
			return
		}
		q := w.baseQC(pr, lib.Phase_PRECOMMIT_VOTE)
		q.Signature = w.aggregate(vs, q, under, nil, nil)
		if underPower+1 == thr {
			c.Probe("forged_exactly_one_power_unit_short")
		}
		add(fmt.Sprintf("below-threshold(power %d of %d, need %d)", underPower, total, thr), q)
	case 1: // the same aggregate, bitmap padded with members who did not sign
		if len(rest) == 0 {
			return
		}
		q := w.baseQC(pr, lib.Phase_PRECOMMIT_VOTE)
		pad := idxs(rest)
		if t.Chance(1, 2) {
			pad = pad[:1]
		}
		if len(under) > 0 && t.Chance(1, 2) {
			// the node first sees the genuine partial certificate, then the same signature with more bits claimed
			g := w.baseQC(pr, lib.Phase_PRECOMMIT_VOTE)
			g.Signature = w.aggregate(vs, g, under, nil, nil)
			add("below-threshold(genuine partial, sent first)", g)
		}
		q.Signature = w.aggregate(vs, q, under, nil, pad)
		add("bitmap-padded-with-unsigned-members", q)
	case 2: // quorum reached only with signatures made by keys outside the committee
		if len(rest) == 0 {
			return
		}
		q := w.baseQC(pr, lib.Phase_PRECOMMIT_VOTE)
		ov := map[int]crypto.PrivateKeyI{}
		for i, m := range rest {
			ov[m.idx] = outsider(i)
		}
		q.Signature = w.aggregate(vs, q, all, ov, nil)
		add("non-members-sign-in-members-slots", q)
	case 3: // a genuine +2/3 certificate of the PROPOSE_VOTE phase (exists in every round of the protocol)
		q := w.baseQC(pr, lib.Phase_PROPOSE_VOTE)
		q.Signature = w.aggregate(vs, q, all, nil, nil)
		add("propose-vote-certificate-as-commit", q)
	case 4: // ... relabelled as PRECOMMIT_VOTE
		q := w.baseQC(pr, lib.Phase_PROPOSE_VOTE)
		q.Signature = w.aggregate(vs, q, all, nil, nil)
		q.Header.Phase = lib.Phase_PRECOMMIT_VOTE
		add("propose-vote-signatures-relabelled-precommit", q)
	case 5, 6: // honest quorum signature re-targeted to another block
		alt := w.alteredBlock(pr, kind == 6 && t.Chance(1, 2))
		if alt == nil {
			return
		}
		q := cloneQC(honest)
		q.Block = alt.bz
		if kind == 5 {
			q.BlockHash = alt.hash
			add("retargeted-to-other-block(hash updated)", q)
		} else {
			add("retargeted-to-other-block(hash kept)", q)
		}
		if kind == 6 && t.Chance(1, 3) {
			// the honest block bytes followed by a second header field: raw-byte hashing sees the first,
			// protobuf decoding merges both
			// (the second header must set a field to a non-default value that differs from the first: a header whose
			// only differences are zero-valued fields encodes as a subset and merges back into the certified header)
			h2 := new(lib.BlockHeader)
			if bz0, e0 := lib.Marshal(pr.block.BlockHeader); e0 != nil || lib.Unmarshal(bz0, h2) != nil {
				return
			}
			h2.Time += 1 + uint64(t.Intn(1000))
			if _, e := h2.SetHash(); e != nil { // the second header is self-consistent: it carries its own hash
				return
			}
			if hdr, e := lib.Marshal(h2); e == nil {
				q2 := cloneQC(honest)
				q2.Block = append(append([]byte(nil), pr.blockBz...), append(binary.AppendUvarint([]byte{0x0A}, uint64(len(hdr))), hdr...)...)
				add("second-header-appended-to-certified-block", q2)
			}
		}
	case 7: // honest quorum signature re-targeted to other results (rewards redirected)
		q := cloneQC(honest)
		if q.Results == nil || q.Results.RewardRecipients == nil || len(q.Results.RewardRecipients.PaymentPercents) == 0 {
			return
		}
		redirected := append([]byte(nil), w.actors[len(w.actors)-1].addr...)
		if bytes.Equal(redirected, q.Results.RewardRecipients.PaymentPercents[0].Address) {
			redirected[0] ^= 0x01
		}
		q.Results.RewardRecipients.PaymentPercents[0].Address = redirected
		if t.Chance(1, 2) {
			q.ResultsHash = q.Results.Hash()
			add("retargeted-to-other-results(hash updated)", q)
		} else {
			add("retargeted-to-other-results(hash kept)", q)
		}
	case 8: // the certificate of the previous height shown again / relabelled to this height
		if len(w.chain) == 0 {
			return
		}
		prev := cloneQC(w.chain[len(w.chain)-1].qc)
		if t.Chance(1, 2) {
			add("previous-height-certificate-again", prev)
		} else {
			q := w.baseQC(pr, lib.Phase_PRECOMMIT_VOTE)
			q.Signature = prev.Signature
			add("previous-height-signature-on-this-block", q)
		}
	case 9: // members also sign for another chain / network: genuine quorum over a foreign view
		q := w.baseQC(pr, lib.Phase_PRECOMMIT_VOTE)
		if t.Chance(1, 2) {
			q.Header.ChainId = 2
		} else {
			q.Header.NetworkId = 2
		}
		q.Signature = w.aggregate(vs, q, all, nil, nil)
		if t.Chance(1, 2) {
			add(fmt.Sprintf("foreign-view-certificate(chain %d network %d)", q.Header.ChainId, q.Header.NetworkId), q)
		} else {
			q.Header.ChainId, q.Header.NetworkId = 1, 1
			add("foreign-view-signatures-relabelled", q)
		}
	case 10: // a single view field changed after signing
		q := cloneQC(honest)
		switch t.Intn(4) {
		case 0:
			q.Header.Round++
		case 1:
			q.Header.RootHeight += 1
		case 2:
			q.ProposerKey = all[t.Intn(len(all))].a.key.PublicKey().Bytes()
			if bytes.Equal(q.ProposerKey, honest.ProposerKey) {
				q.ProposerKey = outsider(0).PublicKey().Bytes()
			}
		default:
			q.Header.Height++
		}
		add("view-field-changed-after-signing", q)
	case 11: // one heavy member's signature aggregated while several unsigned bits are claimed
		if len(under) == 0 || len(rest) == 0 {
			return
		}
		q := w.baseQC(pr, lib.Phase_PRECOMMIT_VOTE)
		q.Signature = w.aggregate(vs, q, under[:1], nil, idxs(append(under[1:], rest...)))
		add("one-signature-claimed-for-all", q)
	case 12: // the aggregate of nobody
		q := w.baseQC(pr, lib.Phase_PRECOMMIT_VOTE)
		q.Signature = w.aggregate(vs, q, nil, nil, nil)
		if t.Chance(1, 2) {
			q.Signature = w.aggregate(vs, q, nil, nil, idxs(all))
			add("neutral-signature-all-bits-claimed", q)
		} else {
			add("neutral-signature-empty-bitmap", q)
		}
	case 13: // two deviations at once: below threshold AND relabelled phase / padded AND foreign view
		if len(under) == 0 || len(rest) == 0 {
			return
		}
		q := w.baseQC(pr, lib.Phase_PROPOSE_VOTE)
		q.Signature = w.aggregate(vs, q, under, nil, idxs(rest))
		add("padded-propose-vote-certificate", q)
	case 14: // signatures of a different committee: everyone with a BLS key outside the set signs
		q := w.baseQC(pr, lib.Phase_PRECOMMIT_VOTE)
		ov := map[int]crypto.PrivateKeyI{}
		for i, m := range all {
			ov[m.idx] = outsider(i)
		}
		q.Signature = w.aggregate(vs, q, all, ov, nil)
		add("different-committee-signs", q)
	default: // genuine signatures by the right members over the right view but for another block hash
		alt := w.alteredBlock(pr, false)
		if alt == nil || len(under) == 0 {
			return
		}
		// the attacker controls the members in 'under' (< 1/3 is not required here: they are below +2/3) and
		// lets them sign its own block; the rest signed the honest block
		q := w.baseQC(pr, lib.Phase_PRECOMMIT_VOTE)
		q.Block, q.BlockHash = alt.bz, alt.hash
		q.Signature = w.aggregate(vs, q, under, nil, idxs(rest))
		add("minority-signs-other-block-majority-bits-claimed", q)
	}
	return
}

type altBlock struct {
	bz, hash []byte
	blk      *lib.Block
}

// alteredBlock derives a second well-formed block for the same height (other time / one transaction less).
func (w *world) alteredBlock(pr *proposal, staleHash bool) *altBlock {
	blk := new(lib.Block)
	if err := lib.Unmarshal(pr.blockBz, blk); err != nil {
		return nil
	}
	if len(blk.Transactions) > 0 && w.c.T.Chance(1, 2) {
		blk.Transactions = blk.Transactions[:len(blk.Transactions)-1]
		blk.BlockHeader.NumTxs--
		blk.BlockHeader.TotalTxs--
	} else {
		blk.BlockHeader.Time++
	}
	old := blk.BlockHeader.Hash
	h, err := blk.BlockHeader.SetHash()
	if err != nil {
		return nil
	}
	if staleHash {
		blk.BlockHeader.Hash = old // the header still carries the hash of the honest block
	}
	bz, err := lib.Marshal(blk)
	if err != nil {
		return nil
	}
	return &altBlock{bz: bz, hash: h, blk: blk}
}

// certAttack delivers forged block messages to tape-chosen running nodes before the honest certificate.
func (w *world) certAttack(pr *proposal, vs lib.ValidatorSet, honest *lib.QuorumCertificate, ups []*node) {
	c := w.c
	n := 1
	if c.Prop == "C02" {
		n = 1 + c.T.Intn(3)
	}
	for i := 0; i < n; i++ {
		target := ups[c.T.Intn(len(ups))]
		for _, f := range w.forgeCertificates(pr, vs, honest) {
			w.focus(target)
			before, hBefore := target.st.Version(), target.height()
			saved := target.ctl.Consensus.BlockResult
			_, err := target.ctl.HandlePeerBlock(&lib.BlockMessage{ChainId: 1, MaxHeight: f.qc.Header.Height, BlockAndCertificate: cloneQC(f.qc), Time: 1}, false)
			c.Check()
			c.Fault("forged_" + firstWordParen(f.kind))
			c.Logf("forged certificate [%s] -> %s: %v", f.kind, target.name, err)
			if target.st.Version() != before || target.height() != hBefore || err == nil {
				c.ReportFor("C02", "finality-gate", "forged-certificate-committed:"+firstWordParen(f.kind),
					fmt.Sprintf("%s at height %d accepted a block message whose certificate is not a +2/3 commit certificate for it [%s]: error=%v, store version %d -> %d", target.name, hBefore, f.kind, err, before, target.st.Version()))
			}
			target.ctl.Consensus.BlockResult = saved
		}
	}
}

func firstWordParen(s string) string {
	for i := 0; i < len(s); i++ {
		if s[i] == '(' || s[i] == ' ' {
			return s[:i]
		}
	}
	return s
}

// lastCertAttack: a Byzantine proposer embeds a forged certificate for the previous height in its
// block header (rewards and non-signer accounting are derived from it). Replicas must refuse to vote.
func (w *world) lastCertAttack(pr *proposal, ups []*node) {
	c := w.c
	t := c.T
	h := pr.block.BlockHeader.Height
	if h < 2 || len(w.chain) == 0 || pr.block.BlockHeader.LastQuorumCertificate == nil {
		return
	}
	prev := w.chain[len(w.chain)-1]
	p := w.nodes[pr.proposer]
	w.focus(p)
	vs, err := p.ctl.FSM.LoadCommittee(1, prev.qc.Header.RootHeight)
	if err != nil {
		return
	}
	ms, total := w.committeeMembers(vs)
	thr := total*2/3 + 1
	under, rest, _ := belowQuorum(ms, thr, t.Intn(8), t.Chance(1, 2))
	if len(under) == 0 || len(rest) == 0 {
		return
	}
	last := &lib.QuorumCertificate{Header: prev.qc.Header, BlockHash: prev.qc.BlockHash, ResultsHash: prev.qc.ResultsHash, ProposerKey: prev.qc.ProposerKey}
	kind := "below-threshold"
	var claim []int
	if t.Chance(1, 2) {
		kind = "bitmap-padded"
		for _, m := range rest {
			claim = append(claim, m.idx)
		}
	}
	last.Signature = w.aggregate(vs, last, under, nil, claim)
	blk := new(lib.Block)
	if e := lib.Unmarshal(pr.blockBz, blk); e != nil {
		return
	}
	blk.BlockHeader.LastQuorumCertificate = last
	hash, e := blk.BlockHeader.SetHash()
	if e != nil {
		return
	}
	bz, e := lib.Marshal(blk)
	if e != nil {
		return
	}
	q := w.proposalQC(pr)
	q.Block, q.BlockHash = bz, hash
	target := ups[t.Intn(len(ups))]
	w.focus(target)
	_, verr := target.ctl.ValidateProposal(pr.rc, q, pr.evidence)
	c.Check()
	c.Fault("forged_last_certificate_" + kind)
	c.Logf("proposal with forged last certificate [%s] -> %s: %v", kind, target.name, verr)
	// the admission step on its own: a Byzantine proposer executes its own block, so its header is
	// consistent with the forged certificate (state root included) and this check is all that stands
	// between the forged certificate and the replicas' votes
	cerr := target.ctl.CheckAndSetLastCertificate(blk.BlockHeader)
	c.Check()
	target.ctl.ResetFSM()
	target.ctl.Consensus.BlockResult = nil
	if cerr == nil {
		c.ReportFor("C02", "finality-gate", "forged-last-certificate-admitted:"+kind,
			fmt.Sprintf("%s admitted (CheckAndSetLastCertificate) a header for height %d whose embedded certificate for height %d is %s (not +2/3)", target.name, h, h-1, kind))
	}
	if verr == nil {
		c.ReportFor("C02", "finality-gate", "forged-last-certificate-accepted:"+kind,
			fmt.Sprintf("%s validated a proposal for height %d whose embedded certificate for height %d is %s (not +2/3)", target.name, h, h-1, kind))
	}
}
