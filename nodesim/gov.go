package nodesim

import (
	"encoding/json"
	"fmt"

	"github.com/canopy-network/canopy/fsm"
	"github.com/canopy-network/canopy/lib"
	"github.com/canopy-network/canopy/lib/crypto"
)

// Governance transactions (change-parameter, DAO transfer). Validators vote through their local
// approve list (proposals.json in the data directory) while they are inside the voting window of a
// round; the harness keeps every node inside that window (bft verif hook) and writes the same list
// to every node, so honest nodes agree on every proposal. Proposals that are on no list must never
// execute.

func (w *world) govEnabled() bool {
	if w.slash != nil && w.slash.oracle {
		return false
	}
	switch w.c.Prop {
	case "C14", "C20", "C02", "C19":
		return false
	}
	return true
}

func (w *world) genGovTx(n *node) *genTx {
	c := w.c
	t := c.T
	w.focus(n)
	sm := n.ctl.FSM
	h := sm.Height()
	from := w.pickActor(func(a *actor) bool { return !a.isVal })
	fee := uint64(10000)
	start, end := h, h+uint64(1+t.Intn(3))
	if t.Chance(1, 10) {
		start, end = h+5, h+9 // not yet open
	}
	var tx lib.TransactionI
	var err lib.ErrorI
	desc := ""
	u := func(space, key string, v uint64) {
		tx, err = fsm.NewChangeParamTxUint64(from.key, space, key, v, start, end, 1, 1, fee, h, "")
		desc = fmt.Sprintf("change-parameter %s/%s=%d [%d,%d]", space, key, v, start, end)
	}
	switch t.Pick(3, 2, 2, 2, 1, 1, 1, 1, 1, 2) {
	case 0:
		u(fsm.ParamSpaceVal, fsm.ParamMaxCommitteeSize, []uint64{1, 2, 3, 100}[t.Intn(4)])
	case 1:
		u(fsm.ParamSpaceVal, fsm.ParamMaximumDelegatesPerCommittee, []uint64{0, 1, 2}[t.Intn(3)])
	case 2:
		u(fsm.ParamSpaceVal, fsm.ParamMaxCommittees, []uint64{1, 2, 15}[t.Intn(3)])
	case 3:
		u(fsm.ParamSpaceVal, fsm.ParamUnstakingBlocks, []uint64{0, 1, 5}[t.Intn(3)]) // 0 is invalid
	case 4:
		u(fsm.ParamSpaceVal, fsm.ParamNonSignSlashPercentage, []uint64{101, 5, 100}[t.Intn(3)]) // 101 is invalid
	case 5:
		u(fsm.ParamSpaceVal, fsm.ParamMinimumStakeForValidators, []uint64{0, 1_500_000, 1000}[t.Intn(3)])
	case 6:
		u(fsm.ParamSpaceFee, fsm.ParamSendFee, []uint64{10000, 10001, 5000}[t.Intn(3)])
	case 7:
		u(fsm.ParamSpaceCons, fsm.ParamBlockSize, []uint64{lib.MaxBlockHeaderSize + 500, 1_000_000, 10}[t.Intn(3)]) // 10 is invalid
	case 8:
		u(fsm.ParamSpaceVal, fsm.ParamDelegateUnstakingBlocks, []uint64{1, 3}[t.Intn(2)]) // 1 is invalid
	default:
		pool := uint64(0)
		if p, e := sm.GetPool(lib.DAOPoolID); e == nil && p != nil {
			pool = p.Amount
		}
		amt := []uint64{1, pool / 2, pool, pool + 1}[t.Intn(4)]
		mint := t.Chance(1, 3)
		tx, err = fsm.NewDAOTransferTx(from.key, amt, start, end, 1, 1, fee, h, mint, "")
		desc = fmt.Sprintf("dao-transfer %d to %s mint=%v [%d,%d]", amt, from.name, mint, start, end)
		if err == nil && tx != nil && mint {
			if bz, e := lib.Marshal(tx); e == nil {
				if w.daoMint == nil {
					w.daoMint = map[string]uint64{}
				}
				w.daoMint[string(bz)] = amt
			}
		}
	}
	if err != nil || tx == nil {
		return nil
	}
	bz, e := lib.Marshal(tx)
	if e != nil {
		return nil
	}
	// the same proposal bytes (same signer, values, window and clock instant) are decided once
	if w.govSeen == nil {
		w.govSeen = map[string]bool{}
	}
	if w.govSeen[string(bz)] {
		return nil
	}
	w.govSeen[string(bz)] = true
	approve := t.Chance(3, 4)
	if approve {
		if !w.approve(tx) {
			return nil
		}
		desc += " (on every approve list)"
	} else {
		w.mustFail[string(bz)] = "C05|unapproved-governance-proposal"
		desc += " (on no approve list)"
		c.Fault("gov_unapproved_proposal")
	}
	c.Probe("tx_gov")
	return &genTx{bz: bz, tx: tx.(*lib.Transaction), desc: desc, from: from}
}

// approve adds the proposal to the approve list of every node (running or not: the file is on its disk).
func (w *world) approve(tx lib.TransactionI) bool {
	js, err := lib.MarshalJSON(tx)
	if err != nil {
		w.c.Logf("proposal json: %v", err)
		return false
	}
	for _, n := range w.nodes {
		ps := make(fsm.GovProposals)
		_ = ps.NewFromFile(n.dir)
		if e := ps.Add(json.RawMessage(js), true); e != nil {
			w.c.Logf("approve list: %v", e)
			return false
		}
		if e := ps.SaveToFile(n.dir); e != nil {
			w.c.Harnessf("write approve list: %v", e)
		}
	}
	return true
}

var _ = crypto.HashString
