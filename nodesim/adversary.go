package nodesim

import (
	"bytes"
	"encoding/binary"
	"fmt"
	"math/big"
	"sort"

	"github.com/canopy-network/canopy/fsm"
	"github.com/canopy-network/canopy/lib"
	"github.com/canopy-network/canopy/lib/crypto"
)

// Adversarial clients (C05, C06): for transactions honest clients produce they derive variants that
// must never take effect - unauthorized signers, content tampered after signing, transplanted
// signatures (C05) and re-submissions of already included transactions: identical bytes or other
// byte strings that decode to the same signed content (C06). The oracle is simply: a variant
// labelled must-fail never appears in a committed block.

type wireField struct {
	num  int
	wt   int
	raw  []byte // tag + payload as encoded
	body []byte // payload only (for length-delimited: the bytes; for varint: the varint bytes)
}

func parseWire(b []byte) ([]wireField, bool) {
	var out []wireField
	for i := 0; i < len(b); {
		start := i
		tag, n := binary.Uvarint(b[i:])
		if n <= 0 {
			return nil, false
		}
		i += n
		f := wireField{num: int(tag >> 3), wt: int(tag & 7)}
		switch f.wt {
		case 0:
			_, m := binary.Uvarint(b[i:])
			if m <= 0 {
				return nil, false
			}
			f.body = b[i : i+m]
			i += m
		case 2:
			l, m := binary.Uvarint(b[i:])
			if m <= 0 || i+m+int(l) > len(b) {
				return nil, false
			}
			f.body = b[i+m : i+m+int(l)]
			i += m + int(l)
		default:
			return nil, false
		}
		f.raw = b[start:i]
		out = append(out, f)
	}
	return out, true
}

func joinWire(fs []wireField) []byte {
	var out []byte
	for _, f := range fs {
		out = append(out, f.raw...)
	}
	return out
}

func tagBytes(num, wt int) []byte {
	return binary.AppendUvarint(nil, uint64(num<<3|wt))
}

// reencode returns byte strings that decode to the same transaction content as tx but differ as bytes.
func reencode(tx []byte, pick func(n int) int) (variant []byte, kind string) {
	fs, ok := parseWire(tx)
	if !ok || len(fs) < 3 {
		return nil, ""
	}
	has := map[int]bool{}
	for _, f := range fs {
		has[f.num] = true
	}
	switch pick(6) {
	case 0: // explicit default value for an absent scalar field (nonce=0 / memo="")
		if !has[10] {
			return append(append([]byte{}, tx...), append(tagBytes(10, 0), 0)...), "explicit-zero-nonce"
		}
		if !has[7] {
			return append(append([]byte{}, tx...), append(tagBytes(7, 2), 0)...), "explicit-empty-memo"
		}
		return nil, ""
	case 1: // non-minimal varint for the fee
		for i, f := range fs {
			if f.num == 6 && f.wt == 0 {
				body := append([]byte{}, f.body...)
				body[len(body)-1] |= 0x80
				body = append(body, 0x00)
				nf := append([]wireField{}, fs...)
				nf[i] = wireField{num: 6, wt: 0, raw: append(tagBytes(6, 0), body...)}
				return joinWire(nf), "non-minimal-varint-fee"
			}
		}
		return nil, ""
	case 2: // field order: move created_height to the end
		for i, f := range fs {
			if f.num == 4 {
				nf := append(append([]wireField{}, fs[:i]...), fs[i+1:]...)
				nf = append(nf, f)
				return joinWire(nf), "reordered-fields"
			}
		}
		return nil, ""
	case 3: // duplicated scalar field with the same value (last one wins)
		for _, f := range fs {
			if f.num == 6 {
				return append(append([]byte{}, tx...), f.raw...), "duplicated-scalar-field"
			}
		}
		return nil, ""
	case 4: // signature sub-message with its two fields swapped
		for i, f := range fs {
			if f.num == 3 && f.wt == 2 {
				sub, ok := parseWire(f.body)
				if !ok || len(sub) != 2 {
					return nil, ""
				}
				nb := append(append([]byte{}, sub[1].raw...), sub[0].raw...)
				raw := append(tagBytes(3, 2), binary.AppendUvarint(nil, uint64(len(nb)))...)
				raw = append(raw, nb...)
				nf := append([]wireField{}, fs...)
				nf[i] = wireField{num: 3, wt: 2, raw: raw}
				return joinWire(nf), "reencoded-signature-message"
			}
		}
		return nil, ""
	default: // non-minimal length prefix is not representable for bytes fields; use non-minimal varint on time
		for i, f := range fs {
			if f.num == 5 && f.wt == 0 {
				body := append([]byte{}, f.body...)
				body[len(body)-1] |= 0x80
				body = append(body, 0x00)
				nf := append([]wireField{}, fs...)
				nf[i] = wireField{num: 5, wt: 0, raw: append(tagBytes(5, 0), body...)}
				return joinWire(nf), "non-minimal-varint-time"
			}
		}
		return nil, ""
	}
}

// sameContent reports whether two byte strings decode (through the node's own decoder) to the same transaction.
func sameContent(a, b []byte) bool {
	ta, tb := new(lib.Transaction), new(lib.Transaction)
	if lib.Unmarshal(a, ta) != nil || lib.Unmarshal(b, tb) != nil {
		return false
	}
	ba, e1 := lib.Marshal(ta)
	bb, e2 := lib.Marshal(tb)
	return e1 == nil && e2 == nil && bytes.Equal(ba, bb)
}

// replayAttack submits a replay of an already included transaction.
func (w *world) replayAttack() {
	c := w.c
	t := c.T
	if len(w.includedList) == 0 {
		return
	}
	orig := w.includedList[t.Intn(len(w.includedList))]
	var v []byte
	kind := "identical-bytes"
	if alt := altPublicKeyEncoding(orig); alt != nil && t.Chance(1, 2) {
		v, kind = alt, "alternative-public-key-encoding"
		if _, dup := w.mustFail[string(v)]; dup {
			return
		}
		w.mustFail[string(v)] = "C06|replay-" + kind
		c.Fault("replay_" + kind)
		w.submitRaw(v, "REPLAY("+kind+") of a transaction included at height "+fmt.Sprint(w.included[string(orig)]))
		return
	}
	if m := malleateSignature(orig); m != nil && t.Chance(1, 3) {
		v, kind = m, "malleated-signature"
		if _, dup := w.mustFail[string(v)]; dup {
			return
		}
		w.mustFail[string(v)] = "C06|replay-" + kind
		c.Fault("replay_" + kind)
		w.submitRaw(v, "REPLAY("+kind+") of a transaction included at height "+fmt.Sprint(w.included[string(orig)]))
		return
	}
	if t.Chance(3, 4) {
		v, kind = reencode(orig, t.Intn)
		if v == nil {
			return
		}
		if !sameContent(orig, v) {
			return // the node's decoder does not even accept it as the same transaction
		}
	} else {
		v = orig
	}
	if _, dup := w.mustFail[string(v)]; dup {
		return
	}
	w.mustFail[string(v)] = "C06|replay-" + kind
	c.Fault("replay_" + kind)
	w.submitRaw(v, "REPLAY("+kind+") of a transaction included at height "+fmt.Sprint(w.included[string(orig)]))
}

// authAttack derives an unauthorized variant of an honest transaction.
func (w *world) authAttack(g *genTx) {
	bz, kind := w.authVariant(g, w.c.T.Intn(5))
	if g != nil && g.tx != nil && lib.IsRLPMemo(g.tx.Memo) && w.c.T.Chance(1, 2) {
		bz, kind = w.rlpKeySwap(g)
	}
	if bz == nil {
		return
	}
	w.mustFail[string(bz)] = "C05|unauthorized-" + firstWordParen(kind)
	w.c.Fault("auth_" + firstWordParen(kind))
	w.submitRaw(bz, "UNAUTHORIZED("+kind+") variant of: "+g.desc)
}

// authCombo hands one batch to the mempools: a validly signed but unauthorized transaction, a
// transaction carrying the victim's key with a forged signature, and honest transactions after
// them - the order in which per-transaction verdicts of a batch verifier could be misattributed.
func (w *world) authCombo(gs []*genTx) {
	c := w.c
	var batch [][]byte
	desc := ""
	// the mempool orders by fee (ties: arrival): give the roles in that order
	var live []*genTx
	for _, g := range gs {
		if g != nil && g.tx != nil {
			live = append(live, g)
		}
	}
	sort.SliceStable(live, func(i, j int) bool { return live[i].tx.Fee > live[j].tx.Fee })
	gs = live
	for i, g := range gs {
		if g == nil {
			continue
		}
		switch i {
		case 0, 1:
			bz, kind := w.authVariant(g, []int{0, 3}[i])
			if bz == nil {
				continue
			}
			w.mustFail[string(bz)] = "C05|unauthorized-" + kind
			c.Fault("auth_" + kind)
			batch = append(batch, bz)
			desc += "[" + kind + " of " + g.desc + "] "
			if c.T.Chance(1, 2) {
				batch = append(batch, g.bz)
				desc += "[" + g.desc + "] "
			}
		default:
			batch = append(batch, g.bz)
			desc += "[" + g.desc + "] "
		}
	}
	if len(batch) < 2 {
		return
	}
	nOK := 0
	for _, n := range w.upNodes() {
		w.focus(n)
		if err := n.ctl.Mempool.HandleTransactions(batch...); err == nil {
			nOK++
		}
	}
	w.txSeq++
	c.Fault("auth_batch_combo")
	c.Logf("tx#%d BATCH %s(accepted by %d mempools)", w.txSeq, desc, nOK)
}

func (w *world) authVariant(g *genTx, which int) ([]byte, string) {
	c := w.c
	t := c.T
	if g == nil || g.tx == nil || g.tx.Signature == nil {
		return nil, ""
	}
	clone := func() *lib.Transaction {
		bz, _ := lib.Marshal(g.tx)
		x := new(lib.Transaction)
		lib.Unmarshal(bz, x)
		return x
	}
	// the attacker is a funded stranger: it is no sender, recipient, output address or seller anywhere
	var attacker *actor
	for _, a := range w.actors {
		if a.stranger && (attacker == nil || t.Chance(1, 2)) {
			attacker = a
		}
	}
	if attacker == nil {
		return nil, ""
	}
	x := clone()
	kind := ""
	switch which {
	case 0: // signed by a key that owns nothing in the message
		sb, err := x.GetSignBytes()
		if err != nil {
			return nil, ""
		}
		x.Signature = &lib.Signature{PublicKey: attacker.key.PublicKey().Bytes(), Signature: attacker.key.Sign(sb)}
		kind = "signed-by-unrelated-key"
	case 1: // tamper the message after signing (redirect / inflate)
		if x.MessageType != fsm.MessageSendName {
			return nil, ""
		}
		m := new(fsm.MessageSend)
		if x.Msg.UnmarshalTo(m) != nil {
			return nil, ""
		}
		m.ToAddress = attacker.addr
		m.Amount++
		a, err := lib.NewAny(m)
		if err != nil {
			return nil, ""
		}
		x.Msg = a
		kind = "message-tampered-after-signing"
	case 2: // tamper an envelope field after signing
		switch t.Intn(3) {
		case 0:
			x.Fee++
		case 1:
			x.Time++
		default:
			x.Memo = "x"
		}
		kind = "envelope-tampered-after-signing"
	case 3: // keep the victim's public key, replace the signature bytes with the attacker's signature
		sb, _ := x.GetSignBytes()
		x.Signature = &lib.Signature{PublicKey: g.tx.Signature.PublicKey, Signature: attacker.key.Sign(sb)}
		kind = "forged-signature-under-victims-key"
	default: // transplant: the victim's signature from this transaction onto a different message
		if x.MessageType != fsm.MessageSendName {
			return nil, ""
		}
		m := &fsm.MessageSend{FromAddress: g.from.addr, ToAddress: attacker.addr, Amount: 1}
		a, err := lib.NewAny(m)
		if err != nil {
			return nil, ""
		}
		x.Msg = a
		kind = "signature-transplanted-onto-other-message"
	}
	bz, err := lib.Marshal(x)
	if err != nil {
		return nil, ""
	}
	if bytes.Equal(bz, g.bz) {
		return nil, ""
	}
	_ = c
	return bz, kind
}

func (w *world) submitRaw(bz []byte, desc string) {
	c := w.c
	nOK := 0
	for _, n := range w.upNodes() {
		w.focus(n)
		if err := n.ctl.Mempool.HandleTransactions(bz); err == nil {
			nOK++
		}
	}
	w.txSeq++
	c.Logf("tx#%d %s (accepted by %d mempools)", w.txSeq, desc, nOK)
}

// checkIncluded is called with the transactions of every committed block.
func (w *world) checkIncluded(height uint64, txs [][]byte) {
	c := w.c
	for _, tx := range txs {
		c.Check()
		if why, bad := w.mustFail[string(tx)]; bad {
			prop, sig := why[:3], why[4:]
			c.ReportFor(prop, "must-fail-transaction-executed", sig, fmt.Sprintf("block %d contains (as a successful transaction) %s", height, w.describeBad(tx, sig)))
		}
		// nonce-backed transactions: per signer the nonces of executed transactions strictly increase
		if x := new(lib.Transaction); lib.Unmarshal(tx, x) == nil && x.Memo == lib.RLPV2Indicator && x.Signature != nil {
			k := string(x.Signature.PublicKey)
			if last, ok := w.lastNonce[k]; ok && x.Nonce <= last {
				c.ReportFor("C06", "at-most-once", "nonce-used-twice", fmt.Sprintf("block %d executes a nonce-backed transaction with nonce %d; the same signer already executed nonce %d", height, x.Nonce, last))
			}
			if w.lastNonce == nil {
				w.lastNonce = map[string]uint64{}
			}
			w.lastNonce[k] = x.Nonce
			c.Probe("rlp_v2_transaction_executed")
		}
		// any two included byte strings with the same signed content are a replay, whoever produced them
		h := crypto.HashString(canonical(tx))
		if prev, ok := w.contentSeen[h]; ok && prev != height {
			c.ReportFor("C06", "at-most-once", "same-signed-content-executed-twice", fmt.Sprintf("the same signed transaction content was executed at heights %d and %d", prev, height))
		} else if ok && prev == height && w.contentBytes[h] != string(tx) {
			c.ReportFor("C06", "at-most-once", "same-signed-content-executed-twice-in-one-block", fmt.Sprintf("the same signed transaction content was executed twice in block %d under two encodings", height))
		}
		w.contentSeen[h] = height
		w.contentBytes[h] = string(tx)
		if _, ok := w.included[string(tx)]; !ok {
			w.includedList = append(w.includedList, tx)
		}
	}
}

func canonical(tx []byte) []byte {
	x := new(lib.Transaction)
	if lib.Unmarshal(tx, x) != nil {
		return tx
	}
	sb, err := x.GetSignBytes()
	if err != nil || x.Signature == nil {
		return tx
	}
	return append(sb, x.Signature.PublicKey...)
}

func (w *world) describeBad(tx []byte, sig string) string {
	x := new(lib.Transaction)
	if lib.Unmarshal(tx, x) != nil {
		return sig
	}
	return fmt.Sprintf("a %s transaction labelled %q by the adversarial client (created height %d, fee %d)", x.MessageType, sig, x.CreatedHeight, x.Fee)
}

// altPublicKeyEncoding re-encodes the signer's public key in an equivalent representation the node
// also accepts (64-byte vs 65-byte uncompressed secp256k1), leaving the signed content untouched.
func altPublicKeyEncoding(tx []byte) []byte {
	x := new(lib.Transaction)
	if lib.Unmarshal(tx, x) != nil || x.Signature == nil {
		return nil
	}
	pk := x.Signature.PublicKey
	switch len(pk) {
	case crypto.ETHSECP256K1PubKeySize:
		x.Signature.PublicKey = append([]byte{0x04}, pk...)
	case crypto.ETHSECP256K1PubKeySize + 1:
		x.Signature.PublicKey = pk[1:]
	default:
		return nil
	}
	bz, err := lib.Marshal(x)
	if err != nil {
		return nil
	}
	return bz
}

// malleateSignature: for ECDSA signatures (r, s) the pair (r, N-s) verifies too unless the verifier
// insists on the low-s form; the transaction bytes (and hash) differ, the signed content does not.
func malleateSignature(tx []byte) []byte {
	x := new(lib.Transaction)
	if lib.Unmarshal(tx, x) != nil || x.Signature == nil || len(x.Signature.Signature) != 64 || lib.IsRLPMemo(x.Memo) {
		return nil
	}
	switch len(x.Signature.PublicKey) {
	case 33, 64, 65:
	default:
		return nil
	}
	n, _ := new(big.Int).SetString("FFFFFFFFFFFFFFFFFFFFFFFFFFFFFFFEBAAEDCE6AF48A03BBFD25E8CD0364141", 16)
	sv := new(big.Int).SetBytes(x.Signature.Signature[32:])
	if sv.Sign() == 0 || sv.Cmp(n) >= 0 {
		return nil
	}
	flipped := new(big.Int).Sub(n, sv).Bytes()
	sig := append([]byte(nil), x.Signature.Signature[:32]...)
	sig = append(sig, make([]byte, 32-len(flipped))...)
	sig = append(sig, flipped...)
	x.Signature.Signature = sig
	out, err := lib.Marshal(x)
	if err != nil {
		return nil
	}
	return out
}
