package nodesim

import (
	"encoding/binary"
	"fmt"
	"math/bits"

	"github.com/canopy-network/canopy/fsm"
	"github.com/canopy-network/canopy/lib"
)

// Raw state scan: iterate the state prefixes of a node's committed state and decode the
// values with the protobuf types directly (not through FSM getters or caches).

type snapshot struct {
	height     uint64
	accounts   map[string]*fsm.Account
	pools      map[uint64]*fsm.Pool
	validators map[string]*fsm.Validator
	supply     *fsm.Supply
	unstaking  map[uint64][]string // marker height -> addresses
	paused     map[uint64][]string
	committee  map[uint64]map[string]uint64 // chain id -> address -> stake in index key (prefix 4)
	delegates  map[uint64]map[string]uint64 // prefix 11
	orders     map[uint64][]*lib.SellOrder
	dexLocked  map[uint64]*lib.DexBatch
	dexNext    map[uint64]*lib.DexBatch
	digest     []byte // hash over all raw (key,value) pairs of the state
	keys       [][]byte
	nKeys      int
}

func (w *world) scan(n *node) *snapshot {
	st := n.ctl.FSM.Store().(lib.RStoreI)
	s := &snapshot{height: n.height(), accounts: map[string]*fsm.Account{}, pools: map[uint64]*fsm.Pool{}, validators: map[string]*fsm.Validator{},
		unstaking: map[uint64][]string{}, paused: map[uint64][]string{}, committee: map[uint64]map[string]uint64{}, delegates: map[uint64]map[string]uint64{},
		orders: map[uint64][]*lib.SellOrder{}, dexLocked: map[uint64]*lib.DexBatch{}, dexNext: map[uint64]*lib.DexBatch{}}
	it, err := st.Iterator(nil)
	if err != nil {
		w.c.Harnessf("scan iterator: %v", err)
	}
	defer it.Close()
	h := newDigest()
	for ; it.Valid(); it.Next() {
		k, v := it.Key(), it.Value()
		h.add(k, v)
		s.nKeys++
		if w.c.Prop == "C19" {
			s.keys = append(s.keys, append([]byte(nil), k...))
		}
		segs := decodeSegs(k)
		if len(segs) == 0 || len(segs[0]) != 1 {
			continue
		}
		switch segs[0][0] {
		case 1:
			a := new(fsm.Account)
			if lib.Unmarshal(v, a) == nil {
				s.accounts[string(segs[len(segs)-1])] = a
			}
		case 2:
			p := new(fsm.Pool)
			if lib.Unmarshal(v, p) == nil {
				s.pools[p.Id] = p
			}
		case 3:
			val := new(fsm.Validator)
			if lib.Unmarshal(v, val) == nil {
				s.validators[string(val.Address)] = val
			}
		case 4, 11:
			if len(segs) >= 4 && len(segs[1]) == 8 && len(segs[2]) == 8 {
				id := binary.BigEndian.Uint64(segs[1])
				m := s.committee
				if segs[0][0] == 11 {
					m = s.delegates
				}
				if m[id] == nil {
					m[id] = map[string]uint64{}
				}
				m[id][string(segs[3])] = binary.BigEndian.Uint64(segs[2])
			}
		case 5:
			if len(segs) >= 3 && len(segs[1]) == 8 {
				hh := binary.BigEndian.Uint64(segs[1])
				s.unstaking[hh] = append(s.unstaking[hh], string(segs[2]))
			}
		case 6:
			if len(segs) >= 3 && len(segs[1]) == 8 {
				hh := binary.BigEndian.Uint64(segs[1])
				s.paused[hh] = append(s.paused[hh], string(segs[2]))
			}
		case 10:
			sp := new(fsm.Supply)
			if lib.Unmarshal(v, sp) == nil {
				s.supply = sp
			}
		case 15:
			if len(segs) >= 3 && len(segs[1]) == 1 && len(segs[2]) == 8 {
				b := new(lib.DexBatch)
				if lib.Unmarshal(v, b) == nil {
					id := binary.BigEndian.Uint64(segs[2])
					if segs[1][0] == 1 {
						s.dexLocked[id] = b
					} else {
						s.dexNext[id] = b
					}
				}
			}
		case 13:
			if len(segs) >= 3 && len(segs[1]) == 8 {
				o := new(lib.SellOrder)
				if lib.Unmarshal(v, o) == nil {
					id := binary.BigEndian.Uint64(segs[1])
					s.orders[id] = append(s.orders[id], o)
				}
			}
		}
	}
	s.digest = h.sum()
	return s
}

func decodeSegs(k []byte) (segs [][]byte) {
	for i := 0; i < len(k); {
		l := int(k[i])
		i++
		if i+l > len(k) {
			return nil
		}
		segs = append(segs, k[i:i+l])
		i += l
	}
	return
}

// u128 accumulates uint64 values without wrapping.
type u128 struct{ hi, lo uint64 }

func (u *u128) add(v uint64) {
	var c uint64
	u.lo, c = bits.Add64(u.lo, v, 0)
	u.hi += c
}

func (u u128) String() string {
	if u.hi == 0 {
		return fmt.Sprintf("%d", u.lo)
	}
	return fmt.Sprintf("%d*2^64+%d", u.hi, u.lo)
}

func (u u128) eq(v uint64) bool { return u.hi == 0 && u.lo == v }
