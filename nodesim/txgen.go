package nodesim

import (
	"fmt"

	"github.com/canopy-network/canopy/fsm"
	"github.com/canopy-network/canopy/lib"
	"github.com/canopy-network/canopy/lib/crypto"
)

type genTx struct {
	bz   []byte
	tx   *lib.Transaction
	desc string
	from *actor
}

func (w *world) pickActor(pred func(*actor) bool) *actor {
	var cs []*actor
	for _, a := range w.actors {
		if a.stranger {
			continue
		}
		if pred == nil || pred(a) {
			cs = append(cs, a)
		}
	}
	if len(cs) == 0 {
		return w.actors[0]
	}
	return cs[w.c.T.Intn(len(cs))]
}

func (w *world) amount(balance uint64) uint64 {
	t := w.c.T
	switch t.Pick(6, 2, 1, 1, 1) {
	case 0:
		return uint64(1 + t.Intn(200_000))
	case 1:
		return 0
	case 2:
		return balance // everything (fee makes it fail)
	case 3:
		if balance > 10_000 {
			return balance - 10_000 // exactly everything after the fee
		}
		return 1
	default:
		return ^uint64(0) - uint64(t.Intn(3))
	}
}

// genTx builds one signed transaction of a tape-chosen type against the current state of node n.
func (w *world) genTx(n *node) *genTx {
	c := w.c
	t := c.T
	w.focus(n)
	sm := n.ctl.FSM
	h := sm.Height()
	// fees differ: the mempool orders by fee, so a newcomer can land in front of transactions already pooled
	fee := uint64(10000) + []uint64{0, 1, 777, 10000, 90000}[t.Pick(4, 1, 1, 2, 1)]
	mk := func(desc string, from *actor, tx lib.TransactionI, err lib.ErrorI) *genTx {
		if err != nil || tx == nil {
			c.Logf("tx build failed (%s): %v", desc, err)
			return nil
		}
		bz, e := lib.Marshal(tx)
		if e != nil {
			return nil
		}
		return &genTx{bz: bz, tx: tx.(*lib.Transaction), desc: desc, from: from}
	}
	bal := func(a *actor) uint64 {
		acc, err := sm.GetAccount(crypto.NewAddressFromBytes(a.addr))
		if err != nil || acc == nil {
			return 0
		}
		return acc.Amount
	}
	addr := func(a *actor) crypto.AddressI { return crypto.NewAddressFromBytes(a.addr) }
	switch t.Pick(10, 3, 3, 2, 2, 2, 2, 2, 2, 1, 1) {
	case 0: // send
		from, to := w.pickActor(nil), w.pickActor(nil)
		amt := w.amount(bal(from))
		tx, err := fsm.NewSendTransaction(from.key, addr(to), amt, 1, 1, fee, h, "")
		return mk(fmt.Sprintf("send %s->%s %d", from.name, to.name, amt), from, tx, err)
	case 1: // stake a candidate (or re-stake an existing validator: fails)
		from := w.pickActor(func(a *actor) bool { return a.kind == "bls" })
		amt := []uint64{1_000_000, 5, 1_000_000, 900, bal(from)}[t.Intn(5)]
		committees := [][]uint64{{1}, {1, 2}, {2}, {1, 1}}[t.Pick(4, 2, 1, 1)]
		delegate := t.Chance(1, 4)
		out := w.pickActor(nil)
		if t.Chance(2, 3) {
			out = from
		}
		tx, err := fsm.NewStakeTx(from.key, from.key.PublicKey().Bytes(), addr(out), "tcp://"+from.name, committees, amt, 1, 1, fee, h, delegate, t.Chance(1, 3), "")
		return mk(fmt.Sprintf("stake %s %d committees=%v delegate=%v out=%s", from.name, amt, committees, delegate, out.name), from, tx, err)
	case 2: // edit stake
		v := w.pickActor(func(a *actor) bool { return a.kind == "bls" })
		cur := uint64(0)
		if val, _ := sm.GetValidator(addr(v)); val != nil {
			cur = val.StakedAmount
		}
		amt := cur + []uint64{0, 1, 50_000, 10_000_000_000}[t.Pick(2, 2, 3, 1)]
		committees := [][]uint64{{1}, {1, 2}, {2, 1, 3}}[t.Pick(3, 2, 1)]
		signer := v
		if t.Chance(1, 8) {
			signer = w.pickActor(nil) // unauthorized signer
		}
		tx, err := fsm.NewEditStakeTx(signer.key, addr(v), addr(v), "tcp://"+v.name+"-e", committees, amt, 1, 1, fee, h, t.Chance(1, 2), "")
		return mk(fmt.Sprintf("edit-stake %s -> %d %v signer=%s", v.name, amt, committees, signer.name), signer, tx, err)
	case 3:
		v := w.pickActor(func(a *actor) bool { return a.kind == "bls" })
		tx, err := fsm.NewUnstakeTx(v.key, addr(v), 1, 1, fee, h, "")
		return mk("unstake "+v.name, v, tx, err)
	case 4:
		v := w.pickActor(func(a *actor) bool { return a.kind == "bls" })
		tx, err := fsm.NewPauseTx(v.key, addr(v), 1, 1, fee, h, "")
		return mk("pause "+v.name, v, tx, err)
	case 5:
		v := w.pickActor(func(a *actor) bool { return a.kind == "bls" })
		tx, err := fsm.NewUnpauseTx(v.key, addr(v), 1, 1, fee, h, "")
		return mk("unpause "+v.name, v, tx, err)
	case 6:
		from := w.pickActor(nil)
		amt := w.amount(bal(from))
		cid := []uint64{1, 2, 3}[t.Intn(3)]
		if (c.Prop == "C20" || c.Prop == "C04") && t.Chance(1, 2) {
			// the subsidy names a pool id, not necessarily a committee's reward pool
			cid = []uint64{nestedId + fsm.EscrowPoolAddend, nestedId + fsm.HoldingPoolAddend, nestedId + fsm.LiquidityPoolAddend, lib.DAOPoolID, 0}[t.Intn(5)]
		}
		tx, err := fsm.NewSubsidyTx(from.key, amt, cid, nil, 1, 1, fee, h, "")
		return mk(fmt.Sprintf("subsidy %s %d -> committee %d", from.name, amt, cid), from, tx, err)
	case 7: // create order (root chain escrow)
		from := w.pickActor(nil)
		amt := []uint64{1_000_000_000, 2_000_000_000, 1, bal(from)}[t.Pick(3, 2, 1, 1)]
		tx, err := fsm.NewCreateOrderTx(from.key, amt, 1+uint64(t.Intn(1000)), 2, nil, from.addr, 1, 1, fee, h, "")
		return mk(fmt.Sprintf("create-order %s sell=%d", from.name, amt), from, tx, err)
	case 8: // edit / delete an existing order
		book, _ := sm.GetOrderBook(2)
		if book == nil || len(book.Orders) == 0 {
			return nil
		}
		o := book.Orders[t.Intn(len(book.Orders))]
		owner, ok := w.byAddr[string(o.SellersSendAddress)]
		if !ok {
			return nil
		}
		signer := owner
		if t.Chance(1, 6) {
			signer = w.pickActor(nil)
		}
		if t.Chance(1, 2) {
			tx, err := fsm.NewDeleteOrderTx(signer.key, lib.BytesToString(o.Id), 2, 1, 1, fee, h, "")
			return mk(fmt.Sprintf("delete-order %x by %s", o.Id[:4], signer.name), signer, tx, err)
		}
		amt := []uint64{o.AmountForSale + 1_000_000, o.AmountForSale / 2, 0, o.AmountForSale}[t.Intn(4)]
		tx, err := fsm.NewEditOrderTx(signer.key, lib.BytesToString(o.Id), amt, o.RequestedAmount+1, 2, nil, o.SellerReceiveAddress, 1, 1, fee, h, "")
		return mk(fmt.Sprintf("edit-order %x sell=%d by %s", o.Id[:4], amt, signer.name), signer, tx, err)
	case 9: // vesting send
		from, to := w.pickActor(nil), w.pickActor(nil)
		amt := uint64(1 + t.Intn(100_000))
		tx, err := fsm.NewSendTransactionWithVesting(from.key, addr(to), amt, h, h+1, h+uint64(2+t.Intn(5)), 1, 1, fee, h, "")
		return mk(fmt.Sprintf("vesting-send %s->%s %d", from.name, to.name, amt), from, tx, err)
	default: // wrong fee / wrong height window
		from, to := w.pickActor(nil), w.pickActor(nil)
		badFee, badH := fee, h
		if t.Chance(1, 2) {
			badFee = uint64(t.Intn(10000))
		} else {
			badH = h + 5000
		}
		tx, err := fsm.NewSendTransaction(from.key, addr(to), 5, 1, 1, badFee, badH, "")
		return mk(fmt.Sprintf("send-bad %s fee=%d createdHeight=%d", from.name, badFee, badH), from, tx, err)
	}
}

// submit hands a transaction to the mempools (all nodes, or a tape-chosen subset: mempools differ).
func (w *world) submit(g *genTx) {
	if g == nil {
		return
	}
	c := w.c
	w.txSeq++
	nOK := 0
	for _, n := range w.upNodes() {
		if c.T.Chance(1, 6) {
			continue
		}
		w.focus(n)
		if err := n.ctl.Mempool.HandleTransactions(g.bz); err == nil {
			nOK++
		}
	}
	c.Logf("tx#%d %s (accepted by %d mempools)", w.txSeq, g.desc, nOK)
	c.Probe("tx_" + firstWord(g.desc))
}

func firstWord(s string) string {
	for i := 0; i < len(s); i++ {
		if s[i] == ' ' {
			return s[:i]
		}
	}
	return s
}

// genFailingTx: a send that passes the stateless and fee checks but cannot be paid in full, with the
// highest fee in the pool so that the mempool executes it before everything already pooled.
func (w *world) genFailingTx(n *node) *genTx {
	c := w.c
	w.focus(n)
	sm := n.ctl.FSM
	from, to := w.pickActor(func(a *actor) bool { return a.kind != "bls" }), w.pickActor(nil)
	acc, err := sm.GetAccount(crypto.NewAddressFromBytes(from.addr))
	if err != nil || acc == nil || acc.Amount < 300_000 {
		return nil
	}
	fee := uint64(200_000)
	tx, e := fsm.NewSendTransaction(from.key, crypto.NewAddressFromBytes(to.addr), acc.Amount-fee+1+uint64(c.T.Intn(1000)), 1, 1, fee, sm.Height(), "")
	if e != nil {
		return nil
	}
	bz, e := lib.Marshal(tx)
	if e != nil {
		return nil
	}
	c.Fault("failing_tx_with_top_fee_last")
	return &genTx{bz: bz, tx: tx.(*lib.Transaction), desc: fmt.Sprintf("send-overdraft %s->%s fee=%d", from.name, to.name, fee), from: from}
}
