package nodesim

import (
	"math/bits"

	"github.com/canopy-network/canopy/lib/crypto"
)

func mul64(a, b uint64) (hi, lo uint64) { return bits.Mul64(a, b) }

func div128(hi, lo, d uint64) (q, r uint64) {
	if hi >= d {
		return ^uint64(0), 0
	}
	return bits.Div64(hi, lo, d)
}

func cryptoPub(b []byte) (crypto.PublicKeyI, error) { return crypto.NewPublicKeyFromBytes(b) }
